// Handle histories on explicit tree automata and finite automata (C11, C12).
// {"op":"hist","kind":"ta"|"fa","sym":"names"|"raw","views":bool,"universe":[rule..],"steps":[[name,args..]..]}
// Handles are h0..h3.  After EVERY step the projection of every live handle is logged ("live"); with
// "views" the read-only views of every live handle are logged too (C12).
// res = {"steps":[{"op":name,"i":..,"j":..,"k":..,"rule":..,"q":..,"kind":..,"ret":..,"live":{..},"views":{..}}..]}
#include "common.hh"
#include "fa_util.hh"

#include <vata/incl_param.hh>
#include <vata/sim_param.hh>

using VATA::AutBase;
using VATA::InclParam;

namespace {

const int NH = 4;
std::string hname(int i) { return "h" + std::to_string(i); }

// ----------------------------------------------------------------------------- tree automata
struct TAHist
{
	std::unique_ptr<TA> h[NH];
	Alpha alpha;
	bool raw;

	TA::SymbolType sym(const json& s, size_t rank)
	{
		if (raw) { return s.get<size_t>(); }
		return alpha.Sym(s.get<std::string>(), rank);
	}
	json symName(TA::SymbolType s) const
	{
		if (raw) { return s; }
		return alpha.Name(s);
	}
	json ruleJson(const TA::Transition& t) const
	{
		json kids = json::array();
		for (size_t k : t.GetChildren()) { kids.push_back(StOut(k)); }
		return json::array({symName(t.GetSymbol()), kids, StOut(t.GetParent())});
	}
	json read(const TA& a) const
	{
		json res;
		std::vector<size_t> fin;
		for (size_t q : a.GetFinalStates()) { fin.push_back(StOut(q)); }
		std::sort(fin.begin(), fin.end());
		res["fin"] = fin;
		json rules = json::array();
		for (const TA::Transition& t : a) { rules.push_back(ruleJson(t)); }
		res["rules"] = rules;
		return res;
	}
	// "vsel": the views a history asks for (all of them when empty).  A view that is always asked can mask a defect
	// (AreTransitionsEmpty un-shares the rule storage as a side effect), so histories pick subsets.
	std::set<std::string> vsel;
	bool want(const char* k) const { return vsel.empty() || vsel.count(k) > 0; }
	json views(const TA& a, const json& universe, const std::vector<size_t>& states) const
	{
		json v = json::object();
		json acc = json::array();
		if (want("accept"))
		{
			TA::AcceptTrans at = a.GetAcceptTrans();
			for (auto it = at.begin(); it != at.end(); ++it) { acc.push_back(ruleJson(*it)); }
		}
		if (want("accept")) { v["accept"] = acc; }
		json down = json::array();
		if (want("down")) for (size_t q : states)
		{
			json rs = json::array();
			TA::DownAccessor da = a[StIn(q)];    // keep the accessor alive while iterating
			for (auto it = da.begin(); it != da.end(); ++it) { rs.push_back(ruleJson(*it)); }
			down.push_back(json::array({q, rs, da.empty()}));
		}
		if (want("down")) { v["down"] = down; }
		json cont = json::array();
		if (want("contains")) for (const json& r : universe)
		{
			TA::StateTuple kids;
			for (const json& k : r.at(1)) { kids.push_back(StIn(k.get<size_t>())); }
			TA::SymbolType s = raw ? r.at(0).get<size_t>()
				: const_cast<TAHist*>(this)->alpha.Sym(r.at(0).get<std::string>(), kids.size());
			bool c1 = a.ContainsTransition(kids, s, StIn(r.at(2).get<size_t>()));
			bool c2 = a.ContainsTransition(TA::Transition(StIn(r.at(2).get<size_t>()), s, kids));
			cont.push_back(json::array({r, c1, c2}));
		}
		if (want("contains")) { v["contains"] = cont; }
		if (want("used"))
		{
			auto used = a.GetUsedStates();
			std::vector<size_t> u;
			for (size_t q : used) { u.push_back(StOut(q)); }
			std::sort(u.begin(), u.end());
			v["used"] = u;
		}
		if (want("empty")) { v["empty"] = const_cast<TA&>(a).AreTransitionsEmpty(); }
		if (want("isfinal"))
		{
			json isfin = json::array();
			for (size_t q : states) { isfin.push_back(json::array({q, a.IsStateFinal(StIn(q))})); }
			v["isfinal"] = isfin;
		}
		return v;
	}
};

json runInclSel(const TA& a, const TA& b, int selIdx)
{
	static const bool DOWN[8] = {false, false, true, true, true, true, true, true};
	static const bool REC[8] = {false, false, false, false, true, true, true, true};
	static const bool OPT[8] = {false, false, false, false, false, false, true, true};
	InclParam ip;
	ip.SetAlgorithm(InclParam::e_algorithm::antichains);
	ip.SetDirection(DOWN[selIdx] ? InclParam::e_direction::downward : InclParam::e_direction::upward);
	ip.SetUseRecursion(REC[selIdx]);
	ip.SetUseDownwardCacheImpl(OPT[selIdx]);
	bool sim = (selIdx % 2) == 1;
	ip.SetUseSimulation(sim);
	if (!sim) { return TA::CheckInclusion(a, b, ip) ? "T" : "F"; }
	TA x(a), y(b);
	AutBase::StateType states = AutBase::SanitizeAutsForInclusion(x, y);
	TA u = TA::UnionDisjointStates(x, y);
	VATA::SimParam sp;
	sp.SetRelation(DOWN[selIdx] ? VATA::SimParam::e_sim_relation::TA_DOWNWARD : VATA::SimParam::e_sim_relation::TA_UPWARD);
	sp.SetNumStates(states);
	AutBase::StateDiscontBinaryRelation rel = u.ComputeSimulation(sp);
	ip.SetSimulation(&rel);
	return TA::CheckInclusion(x, y, ip) ? "T" : "F";
}

json runTAHist(const json& c)
{
	TAHist H;
	H.raw = (c.value("sym", "names") == "raw");
	bool wantViews = c.value("views", false);
	if (c.contains("vsel")) { for (const json& k : c["vsel"]) { H.vsel.insert(k.get<std::string>()); } }
	json universe = c.value("universe", json::array());
	std::vector<size_t> vstates = c.value("vstates", std::vector<size_t>());
	json out = json::array();
	size_t stepNo = 0;
	for (const json& st : c.at("steps"))
	{
		std::string op = st.at(0).get<std::string>();
		SetStage(("step " + std::to_string(stepNo++) + " " + op).c_str());
		json ev;
		ev["op"] = op;
		int i = st.size() > 1 && st.at(1).is_number() ? st.at(1).get<int>() : -1;
		ev["i"] = i;
		if (op == "new")
		{
			H.h[i].reset(new TA());
			if (!H.raw) { H.h[i]->SetAlphabet(H.alpha.ptr); }
		}
		else if (op == "add")
		{
			const json& r = st.at(2);
			TA::StateTuple kids;
			for (const json& k : r.at(1)) { kids.push_back(StIn(k.get<size_t>())); }
			if (st.size() > 3 && st.at(3).get<bool>())
			{	// the Transition overload
				H.h[i]->AddTransition(TA::Transition(StIn(r.at(2).get<size_t>()), H.sym(r.at(0), kids.size()), kids));
			}
			else
			{
				H.h[i]->AddTransition(kids, H.sym(r.at(0), kids.size()), StIn(r.at(2).get<size_t>()));
			}
			ev["rule"] = r;
		}
		else if (op == "final") { H.h[i]->SetStateFinal(StIn(st.at(2).get<size_t>())); ev["q"] = st.at(2); }
		else if (op == "finals")
		{
			std::set<size_t> qs;
			for (const json& q : st.at(2)) { qs.insert(StIn(q.get<size_t>())); }
			H.h[i]->SetStatesFinal(qs);
			ev["qs"] = st.at(2);
		}
		else if (op == "erasefinal") { H.h[i]->EraseFinalStates(); }
		else if (op == "clear") { H.h[i]->Clear(); }
		else if (op == "copyctor")
		{
			int j = st.at(2).get<int>();
			bool ct = st.size() > 3 ? st.at(3).get<bool>() : true;
			bool cf = st.size() > 4 ? st.at(4).get<bool>() : true;
			H.h[i].reset(new TA(*H.h[j], ct, cf));
			ev["j"] = j; ev["ct"] = ct; ev["cf"] = cf;
		}
		else if (op == "assign")
		{
			int j = st.at(2).get<int>();
			*H.h[i] = *H.h[j];
			ev["j"] = j;
		}
		else if (op == "movector")
		{
			int j = st.at(2).get<int>();
			H.h[i].reset(new TA(std::move(*H.h[j])));
			H.h[j].reset();      // a moved-from automaton may only be destroyed
			ev["j"] = j;
		}
		else if (op == "moveassign")
		{
			int j = st.at(2).get<int>();
			*H.h[i] = std::move(*H.h[j]);
			H.h[j].reset();
			ev["j"] = j;
		}
		else if (op == "destroy") { H.h[i].reset(); }
		else if (op == "reindexinto")
		{	// h[j]->ReindexStates(*h[i], q -> (q + rot) % 3, addFinal): the destination is an existing automaton
			int j = st.at(2).get<int>();
			size_t rot = st.at(3).get<size_t>();
			bool addFinal = st.at(4).get<bool>();
			struct RotF : public VATA::AbstractReindexF
			{
				size_t rot;
				virtual AutBase::StateType operator[](const AutBase::StateType& s) override { return (s + rot) % 3; }
				virtual AutBase::StateType at(const AutBase::StateType& s) const override { return (s + rot) % 3; }
			} f;
			f.rot = rot;
			H.h[j]->ReindexStates(*H.h[i], f, addFinal);
			ev["j"] = j; ev["rot"] = rot; ev["addFinal"] = addFinal;
		}
		else if (op == "copytrans")
		{	// h[i]->CopyTransitionsFrom(*h[j], parent in P)
			int j = st.at(2).get<int>();
			std::set<size_t> ps;
			for (const json& q : st.at(3)) { ps.insert(q.get<size_t>()); }
			struct ParentF : public TA::AbstractCopyF
			{
				std::set<size_t> ps;
				virtual bool operator()(const TA::Transition& t) override { return ps.count(t.GetParent()) > 0; }
			} f;
			f.ps = ps;
			H.h[i]->CopyTransitionsFrom(*H.h[j], f);
			ev["j"] = j; ev["ps"] = st.at(3);
		}
		else if (op == "derive")
		{
			std::string kind = st.at(2).get<std::string>();
			int j = st.at(3).get<int>();
			int k = st.size() > 4 ? st.at(4).get<int>() : -1;
			ev["kind"] = kind; ev["j"] = j; ev["k"] = k;
			const TA& a = *H.h[j];
			if (kind == "union") { H.h[i].reset(new TA(TA::Union(a, *H.h[k]))); }
			else if (kind == "uniondisj") { H.h[i].reset(new TA(TA::UnionDisjointStates(a, *H.h[k]))); }
			else if (kind == "isect") { H.h[i].reset(new TA(TA::Intersection(a, *H.h[k]))); }
			else if (kind == "isectbu") { H.h[i].reset(new TA(TA::IntersectionBU(a, *H.h[k]))); }
			else if (kind == "unreach") { H.h[i].reset(new TA(a.RemoveUnreachableStates())); }
			else if (kind == "useless") { H.h[i].reset(new TA(a.RemoveUselessStates())); }
			else if (kind == "reduce") { H.h[i].reset(new TA(a.Reduce())); }
			else if (kind == "witness") { H.h[i].reset(new TA(a.GetCandidateTree())); }
			else if (kind == "reindex")
			{
				AutBase::StateToStateMap m;
				size_t base = 50;
				AutBase::StateToStateTranslWeak tr(m, [&base](const AutBase::StateType& s) { (void)base; return s + 50; });
				H.h[i].reset(new TA(a.ReindexStates(tr)));
			}
			else { throw std::runtime_error("vdrive: bad derive kind"); }
		}
		else if (op == "query")
		{
			std::string kind = st.at(1).get<std::string>();
			int j = st.at(2).get<int>();
			ev["kind"] = kind; ev["j"] = j; ev["i"] = -1;
			if (kind == "incl")
			{
				int k = st.at(3).get<int>();
				int sel = st.at(4).get<int>();
				ev["k"] = k; ev["sel"] = sel;
				ev["ret"] = runInclSel(*H.h[j], *H.h[k], sel);
			}
			else if (kind == "empty") { ev["ret"] = H.h[j]->IsLangEmpty() ? "T" : "F"; }
			else if (kind == "simdown")
			{	// downward simulation with n = 3 (histories use the states 0..2): 3 x 3 matrix, -1 = lookup threw
				VATA::SimParam sp;
				sp.SetRelation(VATA::SimParam::e_sim_relation::TA_DOWNWARD);
				sp.SetNumStates(3);
				json m = json::array();
				try
				{
					AutBase::StateDiscontBinaryRelation rel = H.h[j]->ComputeSimulation(sp);
					for (size_t q = 0; q < 3; ++q)
					{
						json row = json::array();
						for (size_t r = 0; r < 3; ++r)
						{
							int v;
							try { v = rel.get(q, r) ? 1 : 0; } catch (const std::exception&) { v = -1; }
							row.push_back(v);
						}
						m.push_back(row);
					}
				}
				catch (const std::exception& e) { m = "X:" + ExcName(e); }
				ev["ret"] = m;
			}
			else { throw std::runtime_error("vdrive: bad query kind"); }
		}
		else { throw std::runtime_error("vdrive: bad step " + op); }

		json live = json::object();
		json views = json::object();
		for (int x = 0; x < NH; ++x)
		{
			if (H.h[x])
			{
				live[hname(x)] = H.read(*H.h[x]);
				if (wantViews) { views[hname(x)] = H.views(*H.h[x], universe, vstates); }
			}
		}
		ev["live"] = live;
		if (wantViews) { ev["views"] = views; }
		out.push_back(ev);
	}
	SetStage("teardown");
	for (int x = 0; x < NH; ++x) { H.h[x].reset(); }
	json res;
	res["steps"] = out;
	return res;
}

// ----------------------------------------------------------------------------- finite automata
json readFAValue(const FA& a)
{
	json v = ReadFA(a);
	json res;
	res["fin"] = v["fin"];
	res["start"] = v["start"];
	res["rules"] = v["delta"];
	return res;
}

json runFAHist(const json& c)
{
	std::unique_ptr<FA> h[NH];
	json out = json::array();
	size_t stepNo = 0;
	auto symOf = [](FA& a, const std::string& name) {
		auto tr = a.GetAlphabet()->GetSymbolTransl();
		return (*tr)(name);
	};
	for (const json& st : c.at("steps"))
	{
		std::string op = st.at(0).get<std::string>();
		SetStage(("fa step " + std::to_string(stepNo++) + " " + op).c_str());
		json ev;
		ev["op"] = op;
		int i = st.size() > 1 && st.at(1).is_number() ? st.at(1).get<int>() : -1;
		ev["i"] = i;
		if (op == "new") { h[i].reset(new FA()); }
		else if (op == "add")
		{
			const json& r = st.at(2);
			h[i]->AddTransition(r.at(0).get<size_t>(), symOf(*h[i], r.at(1).get<std::string>()), r.at(2).get<size_t>());
			ev["rule"] = r;
		}
		else if (op == "final") { h[i]->SetStateFinal(st.at(2).get<size_t>()); ev["q"] = st.at(2); }
		else if (op == "start") { h[i]->SetStateStart(st.at(2).get<size_t>(), symOf(*h[i], "x")); ev["q"] = st.at(2); }
		else if (op == "copyctor") { int j = st.at(2).get<int>(); h[i].reset(new FA(*h[j])); ev["j"] = j; ev["ct"] = true; ev["cf"] = true; }
		else if (op == "assign") { int j = st.at(2).get<int>(); *h[i] = *h[j]; ev["j"] = j; }
		else if (op == "movector") { int j = st.at(2).get<int>(); h[i].reset(new FA(std::move(*h[j]))); h[j].reset(); ev["j"] = j; }
		else if (op == "moveassign") { int j = st.at(2).get<int>(); *h[i] = std::move(*h[j]); h[j].reset(); ev["j"] = j; }
		else if (op == "destroy") { h[i].reset(); }
		else if (op == "derive")
		{
			std::string kind = st.at(2).get<std::string>();
			int j = st.at(3).get<int>();
			int k = st.size() > 4 ? st.at(4).get<int>() : -1;
			ev["kind"] = kind; ev["j"] = j; ev["k"] = k;
			FA& a = *h[j];
			if (kind == "union") { h[i].reset(new FA(FA::Union(a, *h[k]))); }
			else if (kind == "uniondisj") { h[i].reset(new FA(FA::UnionDisjointStates(a, *h[k]))); }
			else if (kind == "isect") { h[i].reset(new FA(FA::Intersection(a, *h[k]))); }
			else if (kind == "reverse") { h[i].reset(new FA(a.Reverse())); }
			else if (kind == "unreach") { h[i].reset(new FA(a.RemoveUnreachableStates())); }
			else if (kind == "useless") { h[i].reset(new FA(a.RemoveUselessStates())); }
			else if (kind == "witness") { h[i].reset(new FA(a.GetCandidateTree())); }
			else { throw std::runtime_error("vdrive: bad fa derive kind"); }
		}
		else if (op == "query")
		{
			std::string kind = st.at(1).get<std::string>();
			int j = st.at(2).get<int>();
			int k = st.at(3).get<int>();
			int sel = st.at(4).get<int>();
			ev["kind"] = kind; ev["j"] = j; ev["k"] = k; ev["sel"] = sel; ev["i"] = -1;
			InclParam ip;
			if (sel == 0) { ip.SetAlgorithm(InclParam::e_algorithm::antichains); }
			else
			{
				ip.SetAlgorithm(InclParam::e_algorithm::congruences);
				ip.SetSearchOrder(sel == 2 ? InclParam::e_search_order::breadth : InclParam::e_search_order::depth);
			}
			ip.SetUseSimulation(false);
			ev["ret"] = FA::CheckInclusion(*h[j], *h[k], ip) ? "T" : "F";
		}
		else { throw std::runtime_error("vdrive: bad fa step " + op); }
		json live = json::object();
		for (int x = 0; x < NH; ++x) { if (h[x]) { live[hname(x)] = readFAValue(*h[x]); } }
		ev["live"] = live;
		out.push_back(ev);
	}
	json res;
	res["steps"] = out;
	return res;
}

} // namespace

VDRIVE_OP(hist)
{
	std::string kind = c.value("kind", "ta");
	return (kind == "fa") ? runFAHist(c) : runTAHist(c);
}
