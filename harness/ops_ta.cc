// ops on explicit tree automata (pure operations: C01-C06, C14, C15)
#include "common.hh"
#include <vata/reduce_param.hh>

#include <vata/incl_param.hh>
#include <random>
#include <set>
#include <vata/sim_param.hh>

using VATA::AutBase;
using VATA::InclParam;
using VATA::SimParam;

namespace {

struct Sel { const char* name; bool down; bool rec; bool opt; bool sim; };
const Sel SELS[8] = {
	{"up",      false, false, false, false},
	{"up_sim",  false, false, false, true},
	{"dn",      true,  false, false, false},
	{"dn_sim",  true,  false, false, true},
	{"dr",      true,  true,  false, false},
	{"dr_sim",  true,  true,  false, true},
	{"dro",     true,  true,  true,  false},
	{"dro_sim", true,  true,  true,  true},
};

// one selection, prepared the way cli/operations.hh and unit_tests/tree_aut_test.hh do it
// "relcopy" mode: the simulation handed to CheckInclusion is a COPY of the relation that was computed, and the variable it was
// copied from is re-used for the simulation of another automaton before the call (as a client keeping relations in a container
// would do).  A copy must be self-contained.
// (defined in common.cc; the supervisor resets it before every case)

json runIncl(const TA& a0, const TA& b0, const Sel& sel)
{
	SetStage(sel.name);
	try
	{
		InclParam ip;
		ip.SetAlgorithm(InclParam::e_algorithm::antichains);
		ip.SetDirection(sel.down ? InclParam::e_direction::downward : InclParam::e_direction::upward);
		ip.SetUseRecursion(sel.rec);
		ip.SetUseDownwardCacheImpl(sel.opt);
		ip.SetUseSimulation(sel.sim);
		if (!sel.sim)
		{
			return TA::CheckInclusion(a0, b0, ip) ? "T" : "F";
		}
		TA a(a0), b(b0);
		AutBase::StateType states = AutBase::SanitizeAutsForInclusion(a, b);
		TA u = TA::UnionDisjointStates(a, b);
		SimParam sp;
		sp.SetRelation(sel.down ? SimParam::e_sim_relation::TA_DOWNWARD : SimParam::e_sim_relation::TA_UPWARD);
		sp.SetNumStates(states);
		AutBase::StateDiscontBinaryRelation sim = u.ComputeSimulation(sp);
		if (!g_relCopy)
		{
			ip.SetSimulation(&sim);
			return TA::CheckInclusion(a, b, ip) ? "T" : "F";
		}
		AutBase::StateDiscontBinaryRelation kept(sim);
		TA other;
		other.SetAlphabet(a.GetAlphabet());
		for (const TA::Transition& t : a) { if (t.GetChildren().empty()) { other.AddTransition(TA::StateTuple(), t.GetSymbol(), 7); break; } }
		other.SetStateFinal(7);
		SimParam sp2;
		sp2.SetRelation(SimParam::e_sim_relation::TA_DOWNWARD);
		sp2.SetNumStates(1);
		sim = other.ComputeSimulation(sp2);
		ip.SetSimulation(&kept);
		return TA::CheckInclusion(a, b, ip) ? "T" : "F";
	}
	catch (const std::exception& e)
	{
		return "X:" + ExcName(e);
	}
}

json prodMapToJson(const AutBase::ProductTranslMap& m)
{
	std::vector<std::vector<size_t>> v;
	for (auto& kv : m) { v.push_back({kv.first.first, kv.first.second, kv.second}); }
	std::sort(v.begin(), v.end());
	return v;
}

// "split": k in a case = the operand A is built in two stages: its first k rules (and final states), then the
// operation is run once and its result discarded (warm), then the remaining rules are added and the operation is
// run for real on the SAME object.  A result must depend on the current value only (no stale per-object memo).
template <class Warm>
void BuildMaybeSplit(TA& a, const json& c, Alpha& alpha, Warm warm)
{
	const json& ja = c.at("A");
	if (!c.contains("split")) { BuildTA(a, ja, alpha); ShareIfAsked(a, c); return; }
	size_t k = c["split"].get<size_t>();
	json first = ja, rest;
	json r1 = json::array(), r2 = json::array();
	for (size_t i = 0; i < ja["rules"].size(); ++i) { (i < k ? r1 : r2).push_back(ja["rules"][i]); }
	first["rules"] = r1;
	rest["rules"] = r2;
	rest["fin"] = json::array();
	// "splitfin": the final states arrive with the second stage (which may then consist of final states only)
	if (c.value("splitfin", false)) { rest["fin"] = ja["fin"]; first["fin"] = json::array(); }
	BuildTA(a, first, alpha);
	SetStage("warm-up on the partial automaton");
	try { warm(a); } catch (const std::exception&) { }
	BuildTA(a, rest, alpha);
	ShareIfAsked(a, c);
}

// the second operand of a pair operation.  bmode "copy": a copy of A (sharing its storage); "extend": a copy of A that is then
// EDITED through the public API into the value c.B (c.B's rules contain A's; final states are replaced when they are not a
// superset) - the operands share whatever the copy-on-write scheme leaves shared; otherwise built on its own from c.B
TA MakeSecond(const TA& a, const json& c, Alpha& alpha)
{
	std::string bmode = c.value("bmode", "");
	if (bmode == "copy" || bmode == "alias") { return TA(a); }
	if (bmode != "extend") { return MakeTA(c.at("B"), alpha); }
	TA b(a);
	const json& jb = c.at("B");
	std::set<size_t> fb;
	for (const json& q : jb.at("fin")) { fb.insert(StIn(q.get<size_t>())); }
	bool superset = true;
	for (size_t q : a.GetFinalStates()) { if (!fb.count(q)) { superset = false; } }
	if (!superset) { b.EraseFinalStates(); }
	for (size_t q : fb) { b.SetStateFinal(q); }
	// only the rules A does not have are added (adding nothing leaves the transition storage shared with A)
	std::set<std::string> have;
	if (c.contains("A")) { for (const json& r : c.at("A").at("rules")) { have.insert(r.dump()); } }
	json extra;
	extra["rules"] = json::array();
	for (const json& r : jb.at("rules")) { if (!have.count(r.dump())) { extra["rules"].push_back(r); } }
	BuildTA(b, extra, alpha);
	return b;
}

void fillMap(AutBase::StateToStateMap& m, const json& j)
{
	for (const json& kv : j) { m[kv.at(0).get<size_t>()] = kv.at(1).get<size_t>(); }
}

} // namespace

// ---------------------------------------------------------------- C01
VDRIVE_OP(incl)
{
	Alpha alpha;
	if (c.contains("syms")) { alpha.RegisterAll(c["syms"]); }
	// "bmode": "alias" = the SAME object is passed as both operands, "copy" = B is a copy of A sharing its storage
	// (the case then carries B = A as value)
	std::string bmode = c.value("bmode", "");
	g_relCopy = c.value("relcopy", false);
	TA b0 = MakeTA(c.at("B"), alpha);
	TA a;
	BuildMaybeSplit(a, c, alpha, [&b0](TA& x) { for (const Sel& sel : SELS) { runIncl(x, b0, sel); runIncl(b0, x, sel); } });
	TA bc = (bmode == "copy" || bmode == "extend") ? MakeSecond(a, c, alpha) : b0;
	const TA& b = (bmode == "alias") ? a : bc;
	json res;
	json v = json::array();
	bool swap = c.value("swap", false);
	for (const Sel& sel : SELS) { v.push_back(swap ? runIncl(b, a, sel) : runIncl(a, b, sel)); }
	res["v"] = v;
	SetStage("readback");
	res["A_after"] = ReadTA(a, alpha); NoteKeep(res, alpha);
	res["B_after"] = ReadTA(b, alpha);
	return res;
}

// ---------------------------------------------------------------- C02
// {"op":"union", "A","B", "maps": "none"|"fresh"|"pre", "preL":[[k,v]..], "preR":[..]}
VDRIVE_OP(union)
{
	Alpha alpha;
	if (c.contains("syms")) { alpha.RegisterAll(c["syms"]); }
	TA a = MakeTA(c.at("A"), alpha); ShareIfAsked(a, c);
	std::string bmode = c.value("bmode", "");
	TA bc = MakeSecond(a, c, alpha);
	const TA& b = (bmode == "alias") ? a : bc;
	std::string maps = c.value("maps", "fresh");
	AutBase::StateToStateMap ml, mr;
	if (maps == "pre") { fillMap(ml, c.at("preL")); fillMap(mr, c.at("preR")); }
	SetStage("Union");
	TA r = (maps == "none") ? TA::Union(a, b) : TA::Union(a, b, &ml, &mr);
	SetStage("readback");
	json res;
	res["R"] = ReadTA(r, alpha);
	if (maps != "none") { res["mapL"] = StateMapToJson(ml); res["mapR"] = StateMapToJson(mr); }
	res["A_after"] = ReadTA(a, alpha); NoteKeep(res, alpha);
	res["B_after"] = ReadTA(b, alpha);
	return res;
}

VDRIVE_OP(uniondisj)
{
	Alpha alpha;
	if (c.contains("syms")) { alpha.RegisterAll(c["syms"]); }
	TA a = MakeTA(c.at("A"), alpha); ShareIfAsked(a, c);
	TA b = MakeTA(c.at("B"), alpha);
	SetStage("UnionDisjointStates");
	TA r = TA::UnionDisjointStates(a, b);
	SetStage("readback");
	json res;
	res["R"] = ReadTA(r, alpha);
	res["A_after"] = ReadTA(a, alpha); NoteKeep(res, alpha);
	res["B_after"] = ReadTA(b, alpha);
	return res;
}

// {"op":"isect", "A","B", "bu": bool, "maps": "none"|"fresh"}
VDRIVE_OP(isect)
{
	Alpha alpha;
	if (c.contains("syms")) { alpha.RegisterAll(c["syms"]); }
	TA a = MakeTA(c.at("A"), alpha); ShareIfAsked(a, c);
	std::string bmode = c.value("bmode", "");
	TA bc = MakeSecond(a, c, alpha);
	const TA& b = (bmode == "alias") ? a : bc;
	bool bu = c.value("bu", false);
	std::string maps = c.value("maps", "fresh");
	AutBase::ProductTranslMap pm;
	SetStage(bu ? "IntersectionBU" : "Intersection");
	TA r = bu ? TA::IntersectionBU(a, b, (maps == "none") ? nullptr : &pm)
	          : TA::Intersection(a, b, (maps == "none") ? nullptr : &pm);
	SetStage("readback");
	json res;
	res["R"] = ReadTA(r, alpha);
	if (maps != "none") { res["map"] = prodMapToJson(pm); }
	res["A_after"] = ReadTA(a, alpha); NoteKeep(res, alpha);
	res["B_after"] = ReadTA(b, alpha);
	return res;
}

// ---------------------------------------------------------------- C03
// {"op":"trim","A"} -> unreach, useless, empty in one event
VDRIVE_OP(trim)
{
	Alpha alpha;
	if (c.contains("syms")) { alpha.RegisterAll(c["syms"]); }
	TA a;
	BuildMaybeSplit(a, c, alpha, [](TA& x) { x.RemoveUnreachableStates(); x.RemoveUselessStates(); x.IsLangEmpty(); });
	json res;
	// "premap": the optional out-map handed in already holds (identity) entries - e.g. one map reused over several calls;
	// what it holds must not influence the automaton returned
	auto premap = [&c](AutBase::StateToStateMap& m) {
		if (c.contains("premap")) { for (const json& q : c["premap"]) { m.insert(std::make_pair(StIn(q.get<size_t>()), StIn(q.get<size_t>()))); } }
	};
	{
		SetStage("RemoveUnreachableStates");
		AutBase::StateToStateMap m;
		premap(m);
		TA r = a.RemoveUnreachableStates(&m);
		res["unreach"] = ReadTA(r, alpha);
		res["unreach_map"] = StateMapToJson(m);
	}
	{
		SetStage("RemoveUselessStates");
		AutBase::StateToStateMap m;
		premap(m);
		TA r = a.RemoveUselessStates(&m);
		res["useless"] = ReadTA(r, alpha);
		res["useless_map"] = StateMapToJson(m);
	}
	SetStage("IsLangEmpty");
	res["empty"] = a.IsLangEmpty();
	SetStage("readback");
	res["A_after"] = ReadTA(a, alpha); NoteKeep(res, alpha);
	return res;
}

// ---------------------------------------------------------------- C04
// {"op":"sim","A","n"}: states are 0..n-1; both relations as n x n 0/1 matrices (row q, column r: get(q,r));
// an entry the relation cannot answer (exception on lookup) is logged as -1
VDRIVE_OP(sim)
{
	Alpha alpha;
	if (c.contains("syms")) { alpha.RegisterAll(c["syms"]); }
	size_t n = c.at("n").get<size_t>();
	TA a;
	if (c.contains("split"))
	{	// the same object is asked twice: once with only the first "split" rules, then again after the rest was added
		// (a result must depend on the automaton's current value only, never on what was computed for it before)
		json first = c.at("A");
		json rules = json::array();
		size_t k = c["split"].get<size_t>();
		for (size_t i = 0; i < first["rules"].size() && i < k; ++i) { rules.push_back(first["rules"][i]); }
		first["rules"] = rules;
		BuildTA(a, first, alpha);
		for (int dir = 0; dir < 2; ++dir)
		{
			SetStage("ComputeSimulation(warm-up)");
			try
			{
				SimParam sp;
				sp.SetRelation(dir ? SimParam::e_sim_relation::TA_UPWARD : SimParam::e_sim_relation::TA_DOWNWARD);
				sp.SetNumStates(n);
				if (dir == 0) { a.ComputeSimulation(sp); }       // upward is only defined on trimmed automata: not asked on the prefix
			}
			catch (const std::exception&) { }
		}
		json rest;
		rest["fin"] = json::array();
		rules = json::array();
		for (size_t i = k; i < c.at("A")["rules"].size(); ++i) { rules.push_back(c.at("A")["rules"][i]); }
		rest["rules"] = rules;
		BuildTA(a, rest, alpha);
	}
	else
	{
		BuildTA(a, c.at("A"), alpha);
	}
	json res;
	for (int dir = 0; dir < 2; ++dir)
	{
		const char* key = dir ? "up" : "down";
		if (c.contains("dirs") && std::find(c["dirs"].begin(), c["dirs"].end(), key) == c["dirs"].end()) { continue; }
		SetStage(dir ? "ComputeSimulation(up)" : "ComputeSimulation(down)");
		try
		{
			SimParam sp;
			sp.SetRelation(dir ? SimParam::e_sim_relation::TA_UPWARD : SimParam::e_sim_relation::TA_DOWNWARD);
			sp.SetNumStates(n);
			AutBase::StateDiscontBinaryRelation rel0 = a.ComputeSimulation(sp);
			// "relcopy": the relation is read through a COPY whose source variable has been re-used for the relation of
			// another automaton (a copy must be self-contained); "amode" copies do not matter here
			AutBase::StateDiscontBinaryRelation rel(rel0);
			if (c.value("relcopy", false))
			{
				TA other;
				other.SetAlphabet(a.GetAlphabet());
				for (const TA::Transition& t : a) { if (t.GetChildren().empty()) { other.AddTransition(TA::StateTuple(), t.GetSymbol(), 7); break; } }
				other.SetStateFinal(7);
				SimParam sp2;
				sp2.SetRelation(SimParam::e_sim_relation::TA_DOWNWARD);
				sp2.SetNumStates(1);
				rel0 = other.ComputeSimulation(sp2);
			}
			json m = json::array();
			for (size_t q = 0; q < n; ++q)
			{
				json row = json::array();
				for (size_t r = 0; r < n; ++r)
				{
					int v;
					try { v = rel.get(q, r) ? 1 : 0; } catch (const std::exception&) { v = -1; }
					row.push_back(v);
				}
				m.push_back(row);
			}
			res[key] = m;
		}
		catch (const std::exception& e)
		{
			res[key] = "exception:" + ExcName(e);
		}
	}
	SetStage("readback");
	res["A_after"] = ReadTA(a, alpha); NoteKeep(res, alpha);
	return res;
}

// ---------------------------------------------------------------- C05
VDRIVE_OP(reduce)
{
	Alpha alpha;
	if (c.contains("syms")) { alpha.RegisterAll(c["syms"]); }
	TA a;
	BuildMaybeSplit(a, c, alpha, [](TA& x) { x.Reduce(); });
	SetStage("Reduce");
	TA r;
	if (c.value("viaparam", false))
	{	// the overload taking the relation explicitly
		VATA::ReduceParam rp;
		rp.SetRelation(VATA::ReduceParam::e_reduce_relation::TA_DOWNWARD);
		r = a.Reduce(rp);
	}
	else { r = a.Reduce(); }
	SetStage("readback");
	json res;
	res["R"] = ReadTA(r, alpha);
	res["A_after"] = ReadTA(a, alpha); NoteKeep(res, alpha);
	return res;
}

// ---------------------------------------------------------------- C06
// {"op":"compl","A","syms":[[name,rank]..]}: the alphabet is exactly syms (+ whatever A's rules use)
VDRIVE_OP(compl)
{
	Alpha alpha;
	if (c.contains("syms")) { alpha.RegisterAll(c["syms"]); }
	TA a;
	BuildMaybeSplit(a, c, alpha, [](TA& x) { x.Complement(); });
	SetStage("Complement");
	TA r = a.Complement();
	SetStage("readback");
	json res;
	res["R"] = ReadTA(r, alpha);      // symbol numbers read through the operand's alphabet
	json syms = json::array();
	for (auto& kv : alpha.otf->GetSymbolDict()) { syms.push_back(json::array({kv.first.symbolStr, kv.first.rank})); }
	res["alphabet"] = syms;
	res["A_after"] = ReadTA(a, alpha); NoteKeep(res, alpha);
	return res;
}

// ---------------------------------------------------------------- C14
namespace {
struct MapReindexF : public VATA::AbstractReindexF
{
	std::map<size_t, size_t> m;
	virtual AutBase::StateType operator[](const AutBase::StateType& s) override { return m.at(s); }
	virtual AutBase::StateType at(const AutBase::StateType& s) const override { return m.at(s); }
};
struct MapSymF : public TA::AbstractSymbolTranslateF
{
	std::map<TA::SymbolType, TA::SymbolType> m;
	virtual TA::SymbolType operator()(const TA::SymbolType& s) override { return m.at(s); }
};
}

// {"op":"reindex","A","how":"weak"|"fctor"|"dst"|"collapse","map":[[k,v]..],"base":N,"D":aut}
//  weak   : ReindexStates(StateToStateTranslWeak&) over a map pre-filled with "map"; unknown states get base, base+1, ...
//  fctor  : ReindexStates(AbstractReindexF&) with the total map
//  dst    : ReindexStates(dst, fctor) into the non-empty destination D
//  collapse: CollapseStates(total map)
VDRIVE_OP(reindex)
{
	Alpha alpha;
	if (c.contains("syms")) { alpha.RegisterAll(c["syms"]); }
	TA a = MakeTA(c.at("A"), alpha); ShareIfAsked(a, c);
	std::string how = c.at("how").get<std::string>();
	json res;
	if (how == "weak")
	{
		AutBase::StateToStateMap m;
		fillMap(m, c.at("map"));
		size_t cnt = c.value("base", 0);
		AutBase::StateToStateTranslWeak tr(m, [&cnt](const AutBase::StateType&) { return cnt++; });
		SetStage("ReindexStates(weak)");
		TA r = a.ReindexStates(tr);
		res["R"] = ReadTA(r, alpha);
		res["map_after"] = StateMapToJson(m);
	}
	else if (how == "fctor" || how == "dst")
	{
		MapReindexF f;
		for (const json& kv : c.at("map")) { f.m[kv.at(0).get<size_t>()] = kv.at(1).get<size_t>(); }
		bool addFinal = c.value("addFinal", true);
		if (how == "fctor")
		{
			SetStage("ReindexStates(fctor)");
			TA r = a.ReindexStates(f, addFinal);
			res["R"] = ReadTA(r, alpha);
		}
		else
		{
			// "dshare": the destination is a COPY of the source (same value as D = A, but sharing its transition storage)
			TA d = c.value("dshare", false) ? TA(a) : MakeTA(c.at("D"), alpha);
			SetStage("ReindexStates(dst)");
			a.ReindexStates(d, f, addFinal);
			res["R"] = ReadTA(d, alpha);
		}
	}
	else if (how == "collapse")
	{
		AutBase::StateToStateMap m;
		fillMap(m, c.at("map"));
		SetStage("CollapseStates");
		TA r = a.CollapseStates(m);
		res["R"] = ReadTA(r, alpha);
	}
	else { throw std::runtime_error("vdrive: bad how"); }
	SetStage("readback");
	res["A_after"] = ReadTA(a, alpha); NoteKeep(res, alpha);
	return res;
}

// {"op":"translsym","A","symmap":[[name,rank,newname]..]} (ranks are kept: the map acts on names of ranked symbols)
VDRIVE_OP(translsym)
{
	Alpha alpha;
	if (c.contains("syms")) { alpha.RegisterAll(c["syms"]); }
	TA a = MakeTA(c.at("A"), alpha); ShareIfAsked(a, c);
	MapSymF f;
	for (const json& e : c.at("symmap"))
	{
		size_t rank = e.at(1).get<size_t>();
		f.m[alpha.Sym(e.at(0).get<std::string>(), rank)] = alpha.Sym(e.at(2).get<std::string>(), rank);
	}
	SetStage("TranslateSymbols");
	TA r = a.TranslateSymbols(f);
	SetStage("readback");
	json res;
	res["R"] = ReadTA(r, alpha);
	res["A_after"] = ReadTA(a, alpha); NoteKeep(res, alpha);
	return res;
}

// ---------------------------------------------------------------- C15
VDRIVE_OP(witness)
{
	Alpha alpha;
	if (c.contains("syms")) { alpha.RegisterAll(c["syms"]); }
	TA a;
	BuildMaybeSplit(a, c, alpha, [](TA& x) { x.GetCandidateTree(); });
	SetStage("GetCandidateTree");
	TA r = a.GetCandidateTree();
	SetStage("readback");
	json res;
	res["R"] = ReadTA(r, alpha);
	res["A_after"] = ReadTA(a, alpha); NoteKeep(res, alpha);
	return res;
}

// ---------------------------------------------------------------- agreement arm (C01, thorough and quick)
// {"op":"inclagree","seed":S,"count":N,"shape":"dense"|"mid"|"wide"}: N seeded random pairs are generated HERE (no JSON per
// pair), all 8 selections are run on each; only pairs on which the selections do not all return the same verdict
// (or one throws) are returned, as complete "incl" events that TLC then judges with InclFails.
#include <random>
#include <functional>
namespace {
json randAut(std::mt19937& rng, const std::vector<std::pair<std::string, size_t>>& alpha, size_t nq, size_t nrules, size_t base)
{
	json rules = json::array();
	for (size_t i = 0; i < nrules; ++i)
	{
		const auto& s = alpha[rng() % alpha.size()];
		json kids = json::array();
		for (size_t k = 0; k < s.second; ++k) { kids.push_back(base + rng() % nq); }
		rules.push_back(json::array({s.first, kids, base + rng() % nq}));
	}
	json fin = json::array();
	for (size_t q = 0; q < nq; ++q) { if (rng() % 100 < 35) { fin.push_back(base + q); } }
	if (fin.empty()) { fin.push_back(base + rng() % nq); }
	json a;
	a["fin"] = fin;
	a["rules"] = rules;
	return a;
}
}

// the twin presentation of a pair: states renamed by random bijections (onto other numbers), rules and final states in a
// shuffled order, symbols registered in a shuffled order - deterministic in tseed
void MakeTwin(const json& ja, const json& jb, unsigned tseed, json& ta2, json& tb2, json& syms2)
{
	std::mt19937 r2(tseed);
	auto twinOf = [&r2](const json& j, size_t base) {
		std::set<size_t> st;
		for (auto& q : j["fin"]) { st.insert(q.get<size_t>()); }
		for (auto& r : j["rules"]) { st.insert(r[2].get<size_t>()); for (auto& k : r[1]) { st.insert(k.get<size_t>()); } }
		std::vector<size_t> from(st.begin(), st.end()), to(st.size());
		for (size_t i = 0; i < to.size(); ++i) { to[i] = base + 3 * i + 1; }
		std::shuffle(to.begin(), to.end(), r2);
		std::map<size_t, size_t> m;
		for (size_t i = 0; i < from.size(); ++i) { m[from[i]] = to[i]; }
		std::vector<json> rules;
		for (auto r : j["rules"]) { for (auto& k : r[1]) { k = m[k.get<size_t>()]; } r[2] = m[r[2].get<size_t>()]; rules.push_back(r); }
		std::shuffle(rules.begin(), rules.end(), r2);
		std::vector<size_t> fin;
		for (auto& q : j["fin"]) { fin.push_back(m[q.get<size_t>()]); }
		std::shuffle(fin.begin(), fin.end(), r2);
		json out;
		out["fin"] = fin; out["rules"] = rules;
		return out;
	};
	ta2 = twinOf(ja, 50);
	tb2 = twinOf(jb, 500);
	std::vector<json> syms;
	for (const json* j : {&ja, &jb}) { for (auto& r : (*j)["rules"]) { json s = json::array({r[0], r[1].size()}); if (std::find(syms.begin(), syms.end(), s) == syms.end()) { syms.push_back(s); } } }
	std::shuffle(syms.begin(), syms.end(), r2);
	syms2 = syms;
}

// {"op":"twin","A","B","tseed"}: all 8 selections on the pair and on its twin presentation (replay of an agreement-arm finding)
VDRIVE_OP(twin)
{
	Alpha alpha;
	g_relCopy = c.value("relcopy", false);
	TA a = MakeTA(c.at("A"), alpha); ShareIfAsked(a, c);
	TA b = MakeSecond(a, c, alpha);
	json v = json::array(), vt = json::array();
	for (const Sel& sel : SELS) { v.push_back(runIncl(a, b, sel)); }
	json ta2, tb2, syms2;
	MakeTwin(c.at("A"), c.at("B"), c.at("tseed").get<unsigned>(), ta2, tb2, syms2);
	Alpha alpha2;
	alpha2.RegisterAll(syms2);
	TA a2 = MakeTA(ta2, alpha2);
	TA b2 = MakeTA(tb2, alpha2);
	for (const Sel& sel : SELS) { vt.push_back(runIncl(a2, b2, sel)); }
	json res;
	res["v"] = v; res["v_twin"] = vt;
	res["A_after"] = ReadTA(a, alpha); NoteKeep(res, alpha);
	res["B_after"] = ReadTA(b, alpha);
	return res;
}

VDRIVE_OP(inclagree)
{
	std::mt19937 rng(c.at("seed").get<unsigned>());
	size_t count = c.at("count").get<size_t>();
	std::string shape = c.value("shape", "dense");
	bool twin = c.value("twin", false);
	typedef std::vector<std::pair<std::string, size_t>> AlphaV;
	const AlphaV alphas[4] = {
		{{"a", 0}, {"b", 0}, {"f", 2}},
		{{"a", 0}, {"g", 1}, {"f", 2}},
		{{"a", 0}, {"b", 0}, {"g", 1}, {"f", 2}},
		{{"a", 0}, {"b", 0}, {"g", 1}, {"h", 1}, {"f", 2}, {"k", 2}}};
	json disagree = json::array();
	size_t nonIncluded = 0, included = 0;
	for (size_t i = 0; i < count; ++i)
	{
		size_t nqa, nqb, nra, nrb;
		const AlphaV* al;
		if (shape == "dense" || shape == "near") { al = &alphas[rng() % 3]; nqa = 1 + rng() % 3; nra = 2 + rng() % 4; nqb = 2 + rng() % 3; nrb = 3 + rng() % 6; }
		else if (shape == "mid") { al = &alphas[2]; nqa = 2 + rng() % 3; nra = 3 + rng() % 6; nqb = 2 + rng() % 4; nrb = 4 + rng() % 9; }
		else { al = &alphas[3]; nqa = 2 + rng() % 5; nra = 4 + rng() % 13; nqb = 2 + rng() % 5; nrb = 4 + rng() % 13; }
		size_t baseA = (rng() % 2) ? 0 : 3;
		json ja = randAut(rng, *al, nqa, nra, baseA);
		json jb = randAut(rng, *al, nqb, nrb, (rng() % 3 == 0) ? 0 : 10);
		// "edit": B is a COPY of A edited in place through the API (final states changed, a few rules over A's own states
		// added): the operands share whatever copy-on-write leaves shared, and are nearly equal
		bool edit = (shape == "edit") || (rng() % 100 < 12);
		if (edit)
		{
			jb = ja;
			unsigned how = rng() % 100;
			json fin = json::array();
			if (how < 30) { fin = ja["fin"]; fin.push_back(baseA + rng() % nqa); }
			else if (how < 60) { for (auto& q : ja["fin"]) { if (rng() % 2) { fin.push_back(q); } } }
			else if (how < 75) { for (size_t q = 0; q < nqa; ++q) { if (rng() % 100 < 40) { fin.push_back(baseA + q); } } }
			else { fin = ja["fin"]; }
			std::set<size_t> fs;
			for (auto& q : fin) { fs.insert(q.get<size_t>()); }
			jb["fin"] = fs;
			json extra = randAut(rng, *al, nqa, rng() % 3, baseA);
			for (auto& r : extra["rules"]) { jb["rules"].push_back(r); }
		}
		else if (shape == "near" || (twin && rng() % 2))
		{	// "nearly included": B is a shifted copy of A with a rule dropped and a few rules added
			size_t base = (ja["fin"].empty() ? 0 : 0);
			(void)base;
			json rules = json::array();
			size_t drop = ja["rules"].empty() ? 0 : rng() % ja["rules"].size();
			bool doDrop = (rng() % 100 < 40);
			for (size_t k = 0; k < ja["rules"].size(); ++k)
			{
				if (doDrop && k == drop) { continue; }
				json r = ja["rules"][k];
				for (auto& kid : r[1]) { kid = kid.get<size_t>() + 20; }
				r[2] = r[2].get<size_t>() + 20;
				rules.push_back(r);
			}
			json extra = randAut(rng, *al, 3, rng() % 4, 20);
			for (auto& r : extra["rules"]) { rules.push_back(r); }
			json fin = json::array();
			for (auto& q : ja["fin"]) { fin.push_back(q.get<size_t>() + 20); }
			if (rng() % 100 < 25) { for (auto& q : extra["fin"]) { fin.push_back(q); } }
			jb = json::object();
			jb["fin"] = fin; jb["rules"] = rules;
		}
		SetStage(("inclagree pair " + std::to_string(i)).c_str());
		g_relCopy = (i % 3 == 0);
		Alpha alpha;
		TA a = MakeTA(ja, alpha);
		json second;
		second["A"] = ja;
		second["B"] = jb;
		if (edit) { second["bmode"] = "extend"; }
		TA b = MakeSecond(a, second, alpha);
		json v = json::array();
		bool same = true;
		for (const Sel& sel : SELS)
		{
			v.push_back(runIncl(a, b, sel));
			if (v.back() != v[0] || (v.back() != "T" && v.back() != "F")) { same = false; }
		}
		json vt = json::array();
		unsigned tseed = rng();
		if (twin)
		{
			json ta2, tb2, syms2;
			MakeTwin(ja, jb, tseed, ta2, tb2, syms2);
			Alpha alpha2;
			alpha2.RegisterAll(syms2);
			TA a2 = MakeTA(ta2, alpha2);
			TA b2 = MakeTA(tb2, alpha2);
			for (const Sel& sel : SELS)
			{
				vt.push_back(runIncl(a2, b2, sel));
				if (vt.back() != v[0]) { same = false; }
			}
		}
		if (v[0] == "T") { ++included; } else { ++nonIncluded; }
		if (!same && disagree.size() < 25)
		{
			json ev;
			ev["op"] = twin ? "twin" : "incl";
			ev["A"] = ja; ev["B"] = jb;
			if (edit) { ev["bmode"] = "extend"; }
			if (g_relCopy) { ev["relcopy"] = true; }
			ev["outcome"] = "ok";
			ev["src"] = "agreement-arm";
			ev["id"] = json::array({"agree", c.at("seed"), i});
			json r;
			if (twin) { ev["tseed"] = tseed; r["v_twin"] = vt; }
			r["v"] = v;
			r["A_after"] = ReadTA(a, alpha);
			r["B_after"] = ReadTA(b, alpha);
			ev["res"] = r;
			disagree.push_back(ev);
		}
	}
	json res;
	res["count"] = count;
	res["included"] = included;
	res["nonincluded"] = nonIncluded;
	res["disagree"] = disagree;
	return res;
}

// ---------------------------------------------------------------- agreement arm for C02
// {"op":"c02agree","seed":S,"count":N,"shape":..}: random pairs generated here; consequences of the contracts are
// checked with the library's own (cross-checked) inclusion: Intersection == IntersectionBU, both within A and B,
// A and B within Union.  Only pairs that violate one of them come back, as full union / isect events for TLC.
VDRIVE_OP(c02agree)
{
	std::mt19937 rng(c.at("seed").get<unsigned>());
	size_t count = c.at("count").get<size_t>();
	std::string shape = c.value("shape", "dense");
	typedef std::vector<std::pair<std::string, size_t>> AlphaV;
	const AlphaV alphas[3] = {
		{{"a", 0}, {"b", 0}, {"f", 2}},
		{{"a", 0}, {"g", 1}, {"f", 2}},
		{{"a", 0}, {"b", 0}, {"g", 1}, {"f", 2}}};
	json suspicious = json::array();
	size_t nonEmptyIsect = 0;
	auto incl = [](const TA& x, const TA& y) { return TA::CheckInclusion(x, y); };
	for (size_t i = 0; i < count; ++i)
	{
		const AlphaV* al = &alphas[rng() % 3];
		size_t nqa = 1 + rng() % 4, nqb = 1 + rng() % 4;
		size_t nra = (shape == "dense") ? 2 + rng() % 5 : 3 + rng() % 8;
		size_t nrb = (shape == "dense") ? 2 + rng() % 6 : 3 + rng() % 8;
		json ja = randAut(rng, *al, nqa, nra, 0);
		json jb = randAut(rng, *al, nqb, nrb, (rng() % 2) ? 0 : 1);
		SetStage(("c02agree pair " + std::to_string(i)).c_str());
		Alpha alpha;
		TA a = MakeTA(ja, alpha);
		TA b = MakeTA(jb, alpha);
		AutBase::ProductTranslMap pm1, pm2;
		TA i1 = TA::Intersection(a, b, &pm1);
		TA i2 = TA::IntersectionBU(a, b, &pm2);
		AutBase::StateToStateMap ml, mr;
		TA u = TA::Union(a, b, &ml, &mr);
		bool okI = incl(i1, i2) && incl(i2, i1) && incl(i1, a) && incl(i1, b) && incl(i2, a) && incl(i2, b);
		bool okU = incl(a, u) && incl(b, u);
		if (!i1.IsLangEmpty()) { ++nonEmptyIsect; }
		if ((!okI || !okU) && suspicious.size() < 20)
		{
			for (int which = 0; which < 3; ++which)
			{
				if ((which < 2 && okI) || (which == 2 && okU)) { continue; }
				json ev;
				ev["A"] = ja; ev["B"] = jb;
				ev["outcome"] = "ok";
				ev["src"] = "c02-agreement-arm";
				ev["id"] = json::array({"c02agree", c.at("seed"), i, which});
				json r;
				if (which < 2)
				{
					ev["op"] = "isect"; ev["bu"] = (which == 1); ev["maps"] = "none";
					r["R"] = ReadTA(which ? i2 : i1, alpha);
				}
				else
				{
					ev["op"] = "union"; ev["maps"] = "none";
					r["R"] = ReadTA(u, alpha);
				}
				r["A_after"] = ReadTA(a, alpha);
				r["B_after"] = ReadTA(b, alpha);
				ev["res"] = r;
				suspicious.push_back(ev);
			}
		}
	}
	json res;
	res["count"] = count;
	res["nonempty_isect"] = nonEmptyIsect;
	res["suspicious"] = suspicious;
	return res;
}

// ---------------------------------------------------------------- oracle-free volume arm for single-automaton operations
// {"op":"lawsagree","which":"trim"|"reduce"|"compl"|"witness"|"sim","seed":S,"count":N}
// Seeded random automata with 3-9 states are generated here; the operation is run and CONSEQUENCES of its contract are
// checked with the library's own inclusion / emptiness (cross-checked elsewhere).  Only suspicious inputs come back, as
// ordinary events of the operation (inputs + results), which TLC then judges with the real contract.
namespace {
bool leq(const TA& x, const TA& y) { return TA::CheckInclusion(x, y); }
bool eqv(const TA& x, const TA& y) { return leq(x, y) && leq(y, x); }
}

VDRIVE_OP(lawsagree)
{
	std::mt19937 rng(c.at("seed").get<unsigned>());
	size_t count = c.at("count").get<size_t>();
	std::string which = c.at("which").get<std::string>();
	typedef std::vector<std::pair<std::string, size_t>> AlphaV;
	const AlphaV alphas[4] = {
		{{"a", 0}, {"b", 0}, {"f", 2}},
		{{"a", 0}, {"g", 1}, {"f", 2}},
		{{"a", 0}, {"b", 1}},
		{{"a", 0}, {"b", 0}, {"g", 1}, {"f", 2}}};
	json suspicious = json::array();
	size_t nonEmpty = 0, processed = 0;
	for (size_t i = 0; i < count; ++i)
	{
		const AlphaV* al = &alphas[rng() % 4];
		size_t nq = 2 + rng() % 7;
		bool dense = (which == "sim" || which == "reduce") && (rng() % 2);
		json ja = randAut(rng, *al, nq, nq + rng() % (2 * nq), (rng() % 3 == 0 && !dense) ? 5 : 0);
		SetStage(("lawsagree " + which + " " + std::to_string(i)).c_str());
		Alpha alpha;
		json syms = json::array();
		for (auto& s : *al) { syms.push_back(json::array({s.first, s.second})); }
		alpha.RegisterAll(syms);
		TA a = MakeTA(ja, alpha);
		if (!a.IsLangEmpty()) { ++nonEmpty; }
		json ev;
		ev["A"] = ja; ev["syms"] = syms; ev["outcome"] = "ok"; ev["src"] = "lawsagree";
		ev["id"] = json::array({"lawsagree", which, c.at("seed"), i});
		json r;
		bool bad = false;
		if (which == "trim")
		{
			AutBase::StateToStateMap m1, m2;
			TA u = a.RemoveUnreachableStates(&m1);
			TA s = a.RemoveUselessStates(&m2);
			bool e = a.IsLangEmpty();
			TA s2 = s.RemoveUselessStates();
			bad = !eqv(u, a) || !eqv(s, a) || (e != s.GetFinalStates().empty()) || (ReadTA(s2, alpha)["rules"].size() != ReadTA(s, alpha)["rules"].size());
			ev["op"] = "trim";
			r["unreach"] = ReadTA(u, alpha); r["unreach_map"] = StateMapToJson(m1);
			r["useless"] = ReadTA(s, alpha); r["useless_map"] = StateMapToJson(m2);
			r["empty"] = e;
		}
		else if (which == "reduce")
		{
			TA x = a.Reduce();
			bad = !eqv(x, a) || x.GetUsedStates().size() > a.GetUsedStates().size();
			ev["op"] = "reduce";
			r["R"] = ReadTA(x, alpha);
		}
		else if (which == "compl")
		{
			if (nq > 5) { continue; }          // the complement is exponential; TLC must still be able to judge a suspicious case
			TA x = a.Complement();
			// every sampled tree over the alphabet is accepted by exactly one of A and its complement: the tree is
			// turned into a one-tree automaton and asked through the library's inclusion (the complement is re-read
			// through the operand's alphabet, because the result object carries the default alphabet)
			bool exactlyOne = true;
			{
				json jx = ReadTA(x, alpha);
				TA xr = MakeTA(jx, alpha);
				for (int t = 0; t < 6 && exactlyOne; ++t)
				{
					json rules = json::array();
					size_t next = 100;
					std::function<size_t(int)> build = [&](int depth) -> size_t {
						std::vector<const std::pair<std::string, size_t>*> cands;
						for (auto& sy : *al) { if (depth > 0 || sy.second == 0) { cands.push_back(&sy); } }
						if (cands.empty()) { throw std::runtime_error("no leaf symbol"); }
						const auto* sy = cands[rng() % cands.size()];
						json kids = json::array();
						for (size_t k = 0; k < sy->second; ++k) { kids.push_back(build(depth - 1)); }
						size_t me = next++;
						rules.push_back(json::array({sy->first, kids, me}));
						return me;
					};
					json jt;
					try { size_t root = build(1 + rng() % 3); jt["fin"] = json::array({root}); }
					catch (const std::exception&) { break; }
					jt["rules"] = rules;
					TA tt = MakeTA(jt, alpha);
					bool inA = leq(tt, a), inC = leq(tt, xr);
					if (inA == inC) { exactlyOne = false; }
				}
			}
			bool involution = exactlyOne;
			TA both = TA::Intersection(a, x);
			bad = !both.IsLangEmpty() || !involution;
			ev["op"] = "compl";
			r["R"] = ReadTA(x, alpha);
			json alph = json::array();
			for (auto& kv : alpha.otf->GetSymbolDict()) { alph.push_back(json::array({kv.first.symbolStr, kv.first.rank})); }
			r["alphabet"] = alph;
		}
		else if (which == "witness")
		{
			TA w = a.GetCandidateTree();
			bad = !leq(w, a) || (w.IsLangEmpty() != a.IsLangEmpty());
			ev["op"] = "witness";
			r["R"] = ReadTA(w, alpha);
		}
		else if (which == "sim")
		{
			// states are 0..nq-1 (base 0 enforced below); a pair in the returned relation must be a language inclusion of states
			if (ja["rules"].empty()) { continue; }
			size_t n = 0;
			for (size_t q : a.GetUsedStates()) { if (q + 1 > n) { n = q + 1; } }
			VATA::SimParam sp;
			sp.SetRelation(VATA::SimParam::e_sim_relation::TA_DOWNWARD);
			sp.SetNumStates(n);
			AutBase::StateDiscontBinaryRelation rel = a.ComputeSimulation(sp);
			json m = json::array();
			auto used = a.GetUsedStates();
			for (size_t q = 0; q < n; ++q)
			{
				json row = json::array();
				for (size_t t = 0; t < n; ++t)
				{
					int v;
					try { v = rel.get(q, t) ? 1 : 0; } catch (const std::exception&) { v = -1; }
					row.push_back(v);
					if (v == 1 && used.count(q) && used.count(t) && q != t)
					{	// q <= t must imply L(q) within L(t)
						TA x(a, true, false), y(a, true, false);
						x.SetStateFinal(q); y.SetStateFinal(t);
						if (!leq(x, y)) { bad = true; }
					}
					if (q == t && used.count(q) && v != 1) { bad = true; }
				}
				m.push_back(row);
			}
			ev["op"] = "sim"; ev["n"] = n; ev["dirs"] = json::array({"down"});
			r["down"] = m;
		}
		else { throw std::runtime_error("vdrive: bad which"); }
		++processed;
		if (bad && suspicious.size() < 20)
		{
			r["A_after"] = ReadTA(a, alpha);
			ev["res"] = r;
			suspicious.push_back(ev);
		}
	}
	json res;
	res["count"] = processed;
	res["nonempty"] = nonEmpty;
	res["suspicious"] = suspicious;
	return res;
}

// ---------------------------------------------------------------- step-level binding of the Layer-2 model InclUp
// {"op":"incluptrace","A","B"}: runs the upward selection with the guarded step hook installed and returns the recorded
// events (Start with the operands AS THE ALGORITHM SEES THEM - trimmed, renumbered -, Pick, Rule, Verdict).
#include "util/verif_hook.hh"
namespace {
std::vector<std::string>* g_stepSink = nullptr;
void stepSink(const std::string& s) { if (g_stepSink) { g_stepSink->push_back(s); } }
}

VDRIVE_OP(incluptrace)
{
	Alpha alpha;
	if (c.contains("syms")) { alpha.RegisterAll(c["syms"]); }
	TA a = MakeTA(c.at("A"), alpha); ShareIfAsked(a, c);
	TA b = MakeTA(c.at("B"), alpha);
	std::vector<std::string> events;
	g_stepSink = &events;
	VATA::Util::Verif::Sink() = stepSink;
	json v;
	try { v = runIncl(a, b, SELS[0]); }
	catch (...) { VATA::Util::Verif::Sink() = nullptr; g_stepSink = nullptr; throw; }
	VATA::Util::Verif::Sink() = nullptr;
	g_stepSink = nullptr;
	json res;
	json evs = json::array();
	for (const std::string& s : events)
	{
		json e = json::parse(s);
		if (e.contains("mode") || e.at("e") == "Ans") { continue; }      // events of sub-steps (trimming during operand preparation)
		evs.push_back(e);
	}
	res["events"] = evs;
	res["v"] = v;
	return res;
}

// ---------------------------------------------------------------- step-level binding of the Layer-2 model Trim
// {"op":"trimtrace","A","mode":"unreach"|"useless"}: runs the trimmer with the step hook installed; returns Start (with the
// operand), the Pop events of THIS function's loop (RemoveUselessStates ends with a nested RemoveUnreachableStates whose
// events are dropped: the model takes that sub-step as a function) and Result (the automaton returned).
VDRIVE_OP(trimtrace)
{
	Alpha alpha;
	if (c.contains("syms")) { alpha.RegisterAll(c["syms"]); }
	TA a = MakeTA(c.at("A"), alpha); ShareIfAsked(a, c);
	std::string mode = c.at("mode").get<std::string>();
	std::vector<std::string> events;
	g_stepSink = &events;
	VATA::Util::Verif::Sink() = stepSink;
	TA r;
	try { r = (mode == "unreach") ? a.RemoveUnreachableStates() : a.RemoveUselessStates(); }
	catch (...) { VATA::Util::Verif::Sink() = nullptr; g_stepSink = nullptr; throw; }
	VATA::Util::Verif::Sink() = nullptr;
	g_stepSink = nullptr;
	json evs = json::array();
	size_t starts = 0;
	for (const std::string& s : events)
	{
		json e = json::parse(s);
		if (e.at("mode") != mode) { continue; }
		if (e.at("e") == "Start")
		{
			if (++starts > 1) { break; }
			e["A"] = ReadTA(a, alpha);
		}
		if (e.contains("q")) { e["q"] = StOut(e["q"].get<size_t>()); }
		evs.push_back(e);
	}
	json done;
	done["e"] = "Result";
	done["R"] = ReadTA(r, alpha);
	evs.push_back(done);
	json res;
	res["events"] = evs;
	return res;
}

// ---------------------------------------------------------------- step-level binding of the Layer-2 model Candidate
// {"op":"candtrace","A"}: runs GetCandidateTree with the step hook installed; returns Start (with the operand), the Pop events of
// its own loop (the nested RemoveUnreachableStates is dropped: the model takes it as a function) and Result.
VDRIVE_OP(candtrace)
{
	Alpha alpha;
	if (c.contains("syms")) { alpha.RegisterAll(c["syms"]); }
	TA a = MakeTA(c.at("A"), alpha); ShareIfAsked(a, c);
	std::vector<std::string> events;
	g_stepSink = &events;
	VATA::Util::Verif::Sink() = stepSink;
	TA r;
	try { r = a.GetCandidateTree(); }
	catch (...) { VATA::Util::Verif::Sink() = nullptr; g_stepSink = nullptr; throw; }
	VATA::Util::Verif::Sink() = nullptr;
	g_stepSink = nullptr;
	json evs = json::array();
	json start;
	start["e"] = "Start";
	start["A"] = ReadTA(a, alpha);
	evs.push_back(start);
	for (const std::string& s : events)
	{
		json e = json::parse(s);
		if (e.value("mode", "") != "candidate") { continue; }
		if (e.at("e") == "Pop")
		{
			e["q"] = StOut(e["q"].get<size_t>());
			e["ord"] = json::array();
			evs.push_back(e);
		}
		else if (e.at("e") == "Visit" && evs.size() > 1)
		{	// the rule looked at, folded into the Pop it belongs to
			json r = e.at("r");
			json kids = json::array();
			for (const json& k : r.at(1)) { kids.push_back(StOut(k.get<size_t>())); }
			evs.back()["ord"].push_back(json::array({alpha.Name(r.at(0).get<size_t>()), kids, StOut(r.at(2).get<size_t>())}));
		}
	}
	json done;
	done["e"] = "Result";
	done["R"] = ReadTA(r, alpha);
	evs.push_back(done);
	json res;
	res["events"] = evs;
	return res;
}

// ---------------------------------------------------------------- step-level binding of the Layer-2 model Product
// {"op":"isecttrace","A","B","bu":bool}: runs Intersection / IntersectionBU with the step hook installed; returns Start (with
// the operands), a synthetic Begin, the Pop events (the state pair taken from the work list) and Result (automaton + product map).
VDRIVE_OP(isecttrace)
{
	Alpha alpha;
	if (c.contains("syms")) { alpha.RegisterAll(c["syms"]); }
	TA a = MakeTA(c.at("A"), alpha); ShareIfAsked(a, c);
	TA b = MakeTA(c.at("B"), alpha);
	bool bu = c.value("bu", false);
	std::vector<std::string> events;
	g_stepSink = &events;
	VATA::Util::Verif::Sink() = stepSink;
	AutBase::ProductTranslMap pm;
	TA r;
	try { r = bu ? TA::IntersectionBU(a, b, &pm) : TA::Intersection(a, b, &pm); }
	catch (...) { VATA::Util::Verif::Sink() = nullptr; g_stepSink = nullptr; throw; }
	VATA::Util::Verif::Sink() = nullptr;
	g_stepSink = nullptr;
	json evs = json::array();
	for (const std::string& s : events)
	{
		json e = json::parse(s);
		if (e.at("e") == "Start")
		{
			e["A"] = ReadTA(a, alpha);
			e["B"] = ReadTA(b, alpha);
			evs.push_back(e);
			json begin;
			begin["e"] = "Begin";
			evs.push_back(begin);
			continue;
		}
		evs.push_back(e);
	}
	json done;
	done["e"] = "Result";
	done["R"] = ReadTA(r, alpha);
	json m = json::array();
	for (auto& kv : pm) { m.push_back(json::array({kv.first.first, kv.first.second, kv.second})); }
	done["map"] = m;
	evs.push_back(done);
	json res;
	res["events"] = evs;
	return res;
}

// ---------------------------------------------------------------- semantic binding of the downward inclusion's sub-answers
// {"op":"incldowntrace","A","B","selidx":2..7}: runs a downward selection with the step hook installed; returns the operands as
// the algorithm saw them (Start) and every answer a sub-call gave: (p, P, v, abs) = "L(p) inside the union of L(q), q in P" is
// v; abs says the answer does not depend on pending hypotheses.  Symbols in the Start event are internal numbers (only their
// identity matters here).
VDRIVE_OP(incldowntrace)
{
	Alpha alpha;
	if (c.contains("syms")) { alpha.RegisterAll(c["syms"]); }
	TA a = MakeTA(c.at("A"), alpha); ShareIfAsked(a, c);
	TA b = MakeTA(c.at("B"), alpha);
	size_t k = c.at("selidx").get<size_t>();
	if (k < 2 || k > 7) { throw std::runtime_error("vdrive: incldowntrace needs a downward selection"); }
	std::vector<std::string> events;
	g_stepSink = &events;
	VATA::Util::Verif::Sink() = stepSink;
	json v;
	try { v = runIncl(a, b, SELS[k]); }
	catch (...) { VATA::Util::Verif::Sink() = nullptr; g_stepSink = nullptr; throw; }
	VATA::Util::Verif::Sink() = nullptr;
	g_stepSink = nullptr;
	json res;
	json answers = json::array();
	bool started = false;
	for (const std::string& s : events)
	{
		json e = json::parse(s);
		if (e.at("e") == "Start") { if (!started && e.contains("A")) { res["SA"] = e.at("A"); res["SB"] = e.at("B"); started = true; } continue; }
		if (e.at("e") == "Ans" && started) { answers.push_back(json::array({e.at("p"), e.at("P"), e.at("v").get<bool>() ? 1 : 0, e.at("abs").get<bool>() ? 1 : 0})); }
	}
	res["answers"] = answers;
	res["sel"] = SELS[k].name;
	res["v"] = v;
	return res;
}
