// ops on explicit tree automata (pure operations: C01-C06, C14, C15)
#include "common.hh"

#include <vata/incl_param.hh>
#include <vata/sim_param.hh>

using VATA::AutBase;
using VATA::InclParam;
using VATA::SimParam;

namespace {

struct Sel { const char* name; bool down; bool rec; bool opt; bool sim; };
const Sel SELS[8] = {
	{"up",      false, false, false, false},
	{"up_sim",  false, false, false, true},
	{"dn",      true,  false, false, false},
	{"dn_sim",  true,  false, false, true},
	{"dr",      true,  true,  false, false},
	{"dr_sim",  true,  true,  false, true},
	{"dro",     true,  true,  true,  false},
	{"dro_sim", true,  true,  true,  true},
};

// one selection, prepared the way cli/operations.hh and unit_tests/tree_aut_test.hh do it
json runIncl(const TA& a0, const TA& b0, const Sel& sel)
{
	SetStage(sel.name);
	try
	{
		InclParam ip;
		ip.SetAlgorithm(InclParam::e_algorithm::antichains);
		ip.SetDirection(sel.down ? InclParam::e_direction::downward : InclParam::e_direction::upward);
		ip.SetUseRecursion(sel.rec);
		ip.SetUseDownwardCacheImpl(sel.opt);
		ip.SetUseSimulation(sel.sim);
		if (!sel.sim)
		{
			return TA::CheckInclusion(a0, b0, ip) ? "T" : "F";
		}
		TA a(a0), b(b0);
		AutBase::StateType states = AutBase::SanitizeAutsForInclusion(a, b);
		TA u = TA::UnionDisjointStates(a, b);
		SimParam sp;
		sp.SetRelation(sel.down ? SimParam::e_sim_relation::TA_DOWNWARD : SimParam::e_sim_relation::TA_UPWARD);
		sp.SetNumStates(states);
		AutBase::StateDiscontBinaryRelation sim = u.ComputeSimulation(sp);
		ip.SetSimulation(&sim);
		return TA::CheckInclusion(a, b, ip) ? "T" : "F";
	}
	catch (const std::exception& e)
	{
		return "X:" + ExcName(e);
	}
}

json prodMapToJson(const AutBase::ProductTranslMap& m)
{
	std::vector<std::vector<size_t>> v;
	for (auto& kv : m) { v.push_back({kv.first.first, kv.first.second, kv.second}); }
	std::sort(v.begin(), v.end());
	return v;
}

void fillMap(AutBase::StateToStateMap& m, const json& j)
{
	for (const json& kv : j) { m[kv.at(0).get<size_t>()] = kv.at(1).get<size_t>(); }
}

} // namespace

// ---------------------------------------------------------------- C01
VDRIVE_OP(incl)
{
	Alpha alpha;
	if (c.contains("syms")) { alpha.RegisterAll(c["syms"]); }
	TA a = MakeTA(c.at("A"), alpha);
	TA b = MakeTA(c.at("B"), alpha);
	json res;
	json v = json::array();
	for (const Sel& sel : SELS) { v.push_back(runIncl(a, b, sel)); }
	res["v"] = v;
	SetStage("readback");
	res["A_after"] = ReadTA(a, alpha);
	res["B_after"] = ReadTA(b, alpha);
	return res;
}

// ---------------------------------------------------------------- C02
// {"op":"union", "A","B", "maps": "none"|"fresh"|"pre", "preL":[[k,v]..], "preR":[..]}
VDRIVE_OP(union)
{
	Alpha alpha;
	if (c.contains("syms")) { alpha.RegisterAll(c["syms"]); }
	TA a = MakeTA(c.at("A"), alpha);
	TA b = MakeTA(c.at("B"), alpha);
	std::string maps = c.value("maps", "fresh");
	AutBase::StateToStateMap ml, mr;
	if (maps == "pre") { fillMap(ml, c.at("preL")); fillMap(mr, c.at("preR")); }
	SetStage("Union");
	TA r = (maps == "none") ? TA::Union(a, b) : TA::Union(a, b, &ml, &mr);
	SetStage("readback");
	json res;
	res["R"] = ReadTA(r, alpha);
	if (maps != "none") { res["mapL"] = StateMapToJson(ml); res["mapR"] = StateMapToJson(mr); }
	res["A_after"] = ReadTA(a, alpha);
	res["B_after"] = ReadTA(b, alpha);
	return res;
}

VDRIVE_OP(uniondisj)
{
	Alpha alpha;
	if (c.contains("syms")) { alpha.RegisterAll(c["syms"]); }
	TA a = MakeTA(c.at("A"), alpha);
	TA b = MakeTA(c.at("B"), alpha);
	SetStage("UnionDisjointStates");
	TA r = TA::UnionDisjointStates(a, b);
	SetStage("readback");
	json res;
	res["R"] = ReadTA(r, alpha);
	res["A_after"] = ReadTA(a, alpha);
	res["B_after"] = ReadTA(b, alpha);
	return res;
}

// {"op":"isect", "A","B", "bu": bool, "maps": "none"|"fresh"}
VDRIVE_OP(isect)
{
	Alpha alpha;
	if (c.contains("syms")) { alpha.RegisterAll(c["syms"]); }
	TA a = MakeTA(c.at("A"), alpha);
	TA b = MakeTA(c.at("B"), alpha);
	bool bu = c.value("bu", false);
	std::string maps = c.value("maps", "fresh");
	AutBase::ProductTranslMap pm;
	SetStage(bu ? "IntersectionBU" : "Intersection");
	TA r = bu ? TA::IntersectionBU(a, b, (maps == "none") ? nullptr : &pm)
	          : TA::Intersection(a, b, (maps == "none") ? nullptr : &pm);
	SetStage("readback");
	json res;
	res["R"] = ReadTA(r, alpha);
	if (maps != "none") { res["map"] = prodMapToJson(pm); }
	res["A_after"] = ReadTA(a, alpha);
	res["B_after"] = ReadTA(b, alpha);
	return res;
}

// ---------------------------------------------------------------- C03
// {"op":"trim","A"} -> unreach, useless, empty in one event
VDRIVE_OP(trim)
{
	Alpha alpha;
	if (c.contains("syms")) { alpha.RegisterAll(c["syms"]); }
	TA a = MakeTA(c.at("A"), alpha);
	json res;
	{
		SetStage("RemoveUnreachableStates");
		AutBase::StateToStateMap m;
		TA r = a.RemoveUnreachableStates(&m);
		res["unreach"] = ReadTA(r, alpha);
		res["unreach_map"] = StateMapToJson(m);
	}
	{
		SetStage("RemoveUselessStates");
		AutBase::StateToStateMap m;
		TA r = a.RemoveUselessStates(&m);
		res["useless"] = ReadTA(r, alpha);
		res["useless_map"] = StateMapToJson(m);
	}
	SetStage("IsLangEmpty");
	res["empty"] = a.IsLangEmpty();
	SetStage("readback");
	res["A_after"] = ReadTA(a, alpha);
	return res;
}

// ---------------------------------------------------------------- C04
// {"op":"sim","A","n"}: states are 0..n-1; both relations as n x n 0/1 matrices (row q, column r: get(q,r));
// an entry the relation cannot answer (exception on lookup) is logged as -1
VDRIVE_OP(sim)
{
	Alpha alpha;
	if (c.contains("syms")) { alpha.RegisterAll(c["syms"]); }
	TA a = MakeTA(c.at("A"), alpha);
	size_t n = c.at("n").get<size_t>();
	json res;
	for (int dir = 0; dir < 2; ++dir)
	{
		const char* key = dir ? "up" : "down";
		if (c.contains("dirs") && std::find(c["dirs"].begin(), c["dirs"].end(), key) == c["dirs"].end()) { continue; }
		SetStage(dir ? "ComputeSimulation(up)" : "ComputeSimulation(down)");
		try
		{
			SimParam sp;
			sp.SetRelation(dir ? SimParam::e_sim_relation::TA_UPWARD : SimParam::e_sim_relation::TA_DOWNWARD);
			sp.SetNumStates(n);
			AutBase::StateDiscontBinaryRelation rel = a.ComputeSimulation(sp);
			json m = json::array();
			for (size_t q = 0; q < n; ++q)
			{
				json row = json::array();
				for (size_t r = 0; r < n; ++r)
				{
					int v;
					try { v = rel.get(q, r) ? 1 : 0; } catch (const std::exception&) { v = -1; }
					row.push_back(v);
				}
				m.push_back(row);
			}
			res[key] = m;
		}
		catch (const std::exception& e)
		{
			res[key] = "exception:" + ExcName(e);
		}
	}
	SetStage("readback");
	res["A_after"] = ReadTA(a, alpha);
	return res;
}

// ---------------------------------------------------------------- C05
VDRIVE_OP(reduce)
{
	Alpha alpha;
	if (c.contains("syms")) { alpha.RegisterAll(c["syms"]); }
	TA a = MakeTA(c.at("A"), alpha);
	SetStage("Reduce");
	TA r = a.Reduce();
	SetStage("readback");
	json res;
	res["R"] = ReadTA(r, alpha);
	res["A_after"] = ReadTA(a, alpha);
	return res;
}

// ---------------------------------------------------------------- C06
// {"op":"compl","A","syms":[[name,rank]..]}: the alphabet is exactly syms (+ whatever A's rules use)
VDRIVE_OP(compl)
{
	Alpha alpha;
	if (c.contains("syms")) { alpha.RegisterAll(c["syms"]); }
	TA a = MakeTA(c.at("A"), alpha);
	SetStage("Complement");
	TA r = a.Complement();
	SetStage("readback");
	json res;
	res["R"] = ReadTA(r, alpha);      // symbol numbers read through the operand's alphabet
	json syms = json::array();
	for (auto& kv : alpha.otf->GetSymbolDict()) { syms.push_back(json::array({kv.first.symbolStr, kv.first.rank})); }
	res["alphabet"] = syms;
	res["A_after"] = ReadTA(a, alpha);
	return res;
}

// ---------------------------------------------------------------- C14
namespace {
struct MapReindexF : public VATA::AbstractReindexF
{
	std::map<size_t, size_t> m;
	virtual AutBase::StateType operator[](const AutBase::StateType& s) override { return m.at(s); }
	virtual AutBase::StateType at(const AutBase::StateType& s) const override { return m.at(s); }
};
struct MapSymF : public TA::AbstractSymbolTranslateF
{
	std::map<TA::SymbolType, TA::SymbolType> m;
	virtual TA::SymbolType operator()(const TA::SymbolType& s) override { return m.at(s); }
};
}

// {"op":"reindex","A","how":"weak"|"fctor"|"dst"|"collapse","map":[[k,v]..],"base":N,"D":aut}
//  weak   : ReindexStates(StateToStateTranslWeak&) over a map pre-filled with "map"; unknown states get base, base+1, ...
//  fctor  : ReindexStates(AbstractReindexF&) with the total map
//  dst    : ReindexStates(dst, fctor) into the non-empty destination D
//  collapse: CollapseStates(total map)
VDRIVE_OP(reindex)
{
	Alpha alpha;
	if (c.contains("syms")) { alpha.RegisterAll(c["syms"]); }
	TA a = MakeTA(c.at("A"), alpha);
	std::string how = c.at("how").get<std::string>();
	json res;
	if (how == "weak")
	{
		AutBase::StateToStateMap m;
		fillMap(m, c.at("map"));
		size_t cnt = c.value("base", 0);
		AutBase::StateToStateTranslWeak tr(m, [&cnt](const AutBase::StateType&) { return cnt++; });
		SetStage("ReindexStates(weak)");
		TA r = a.ReindexStates(tr);
		res["R"] = ReadTA(r, alpha);
		res["map_after"] = StateMapToJson(m);
	}
	else if (how == "fctor" || how == "dst")
	{
		MapReindexF f;
		for (const json& kv : c.at("map")) { f.m[kv.at(0).get<size_t>()] = kv.at(1).get<size_t>(); }
		bool addFinal = c.value("addFinal", true);
		if (how == "fctor")
		{
			SetStage("ReindexStates(fctor)");
			TA r = a.ReindexStates(f, addFinal);
			res["R"] = ReadTA(r, alpha);
		}
		else
		{
			TA d = MakeTA(c.at("D"), alpha);
			SetStage("ReindexStates(dst)");
			a.ReindexStates(d, f, addFinal);
			res["R"] = ReadTA(d, alpha);
		}
	}
	else if (how == "collapse")
	{
		AutBase::StateToStateMap m;
		fillMap(m, c.at("map"));
		SetStage("CollapseStates");
		TA r = a.CollapseStates(m);
		res["R"] = ReadTA(r, alpha);
	}
	else { throw std::runtime_error("vdrive: bad how"); }
	SetStage("readback");
	res["A_after"] = ReadTA(a, alpha);
	return res;
}

// {"op":"translsym","A","symmap":[[name,rank,newname]..]} (ranks are kept: the map acts on names of ranked symbols)
VDRIVE_OP(translsym)
{
	Alpha alpha;
	if (c.contains("syms")) { alpha.RegisterAll(c["syms"]); }
	TA a = MakeTA(c.at("A"), alpha);
	MapSymF f;
	for (const json& e : c.at("symmap"))
	{
		size_t rank = e.at(1).get<size_t>();
		f.m[alpha.Sym(e.at(0).get<std::string>(), rank)] = alpha.Sym(e.at(2).get<std::string>(), rank);
	}
	SetStage("TranslateSymbols");
	TA r = a.TranslateSymbols(f);
	SetStage("readback");
	json res;
	res["R"] = ReadTA(r, alpha);
	res["A_after"] = ReadTA(a, alpha);
	return res;
}

// ---------------------------------------------------------------- C15
VDRIVE_OP(witness)
{
	Alpha alpha;
	if (c.contains("syms")) { alpha.RegisterAll(c["syms"]); }
	TA a = MakeTA(c.at("A"), alpha);
	SetStage("GetCandidateTree");
	TA r = a.GetCandidateTree();
	SetStage("readback");
	json res;
	res["R"] = ReadTA(r, alpha);
	res["A_after"] = ReadTA(a, alpha);
	return res;
}
