// C17 / C18: histories on OndriksMTBDD<int> handles (internal header, as the repository's own unit test uses it).
// {"op":"mtbdd","W":4,"steps":[[name,args..]..]}; after every step the full value table (all 2^W total assignments,
// entry n = value for the assignment whose variable i is bit i of n), the default value of every live handle, the
// outcome of == for every pair of live handles and the sizes of the two unique tables (hook) are logged.
#include "common.hh"
#include <map>

#include <vata/sym_var_asgn.hh>
#include "mtbdd/ondriks_mtbdd.hh"
#include "mtbdd/apply1func.hh"
#include "mtbdd/apply2func.hh"
#include "mtbdd/apply3func.hh"

using VATA::SymbolicVarAsgn;
typedef VATA::MTBDDPkg::OndriksMTBDD<int> MTBDD;

namespace {

const int NH = 4;
const int MOD = 5;

int op1(const std::string& o, int x)
{
	if (o == "sq") { return (x * x) % MOD; }
	if (o == "inc") { return (x + 1) % MOD; }
	if (o == "zero") { return 0; }
	throw std::runtime_error("vdrive: bad op1");
}
int op2(const std::string& o, int x, int y)
{
	if (o == "plus") { return (x + y) % MOD; }
	if (o == "max") { return x > y ? x : y; }
	if (o == "times") { return (x * y) % MOD; }
	if (o == "left") { return x; }
	throw std::runtime_error("vdrive: bad op2");
}
int op3(const std::string& o, int x, int y, int z)
{
	if (o == "ite") { return (x % 2) ? y : z; }
	if (o == "plus3") { return (x + y + z) % MOD; }
	throw std::runtime_error("vdrive: bad op3");
}

GCC_DIAG_OFF(effc++)
class F1 : public VATA::MTBDDPkg::Apply1Functor<F1, int, int>
{
GCC_DIAG_ON(effc++)
public:
	std::string o;
	inline int ApplyOperation(const int& x) { return op1(o, x); }
};
GCC_DIAG_OFF(effc++)
class F2 : public VATA::MTBDDPkg::Apply2Functor<F2, int, int, int>
{
GCC_DIAG_ON(effc++)
public:
	std::string o;
	inline int ApplyOperation(const int& x, const int& y) { return op2(o, x, y); }
};
GCC_DIAG_OFF(effc++)
class F3 : public VATA::MTBDDPkg::Apply3Functor<F3, int, int, int, int>
{
GCC_DIAG_ON(effc++)
public:
	std::string o;
	inline int ApplyOperation(const int& x, const int& y, const int& z) { return op3(o, x, y, z); }
};

// "vmap": the W logical variables of a history are the physical variables vmap[0] < vmap[1] < ... (indices beyond 16 bits
// included); every other physical variable is don't care.  Empty = identity.
std::vector<size_t> g_vmap;
size_t phys(size_t i) { return g_vmap.empty() ? i : g_vmap.at(i); }

SymbolicVarAsgn mkAsgn(const json& a)
{
	size_t len = (g_vmap.empty() || a.size() == 0) ? a.size() : g_vmap.at(a.size() - 1) + 1;
	SymbolicVarAsgn res(len);
	for (size_t i = 0; i < len; ++i) { res.SetIthVariableValue(i, SymbolicVarAsgn::DONT_CARE); }
	for (size_t i = 0; i < a.size(); ++i)
	{
		int v = a.at(i).get<int>();
		res.SetIthVariableValue(phys(i), v == 0 ? SymbolicVarAsgn::ZERO : (v == 1 ? SymbolicVarAsgn::ONE : SymbolicVarAsgn::DONT_CARE));
	}
	return res;
}

// the total assignment number n over the W logical variables
SymbolicVarAsgn totalAsgn(size_t W, size_t n)
{
	if (g_vmap.empty()) { return SymbolicVarAsgn(W, n); }
	SymbolicVarAsgn res(g_vmap.at(W - 1) + 1);
	for (size_t i = 0; i < res.length(); ++i) { res.SetIthVariableValue(i, SymbolicVarAsgn::ZERO); }
	for (size_t i = 0; i < W; ++i) { res.SetIthVariableValue(g_vmap[i], ((n >> i) & 1) ? SymbolicVarAsgn::ONE : SymbolicVarAsgn::ZERO); }
	return res;
}

} // namespace

VDRIVE_OP(mtbdd)
{
	size_t W = c.value("W", 4u);
	g_vmap.clear();
	if (c.contains("vmap")) { for (const json& v : c["vmap"]) { g_vmap.push_back(v.get<size_t>()); } }
	std::unique_ptr<MTBDD> h[NH];
	json out = json::array();
	json res;
	res["base"] = json::array({MTBDD::VerifLeafStoreSize(), MTBDD::VerifInternalStoreSize()});
	size_t stepNo = 0;
	// "reuse": one functor object per operation name lives for the whole history and is called again and again (results
	// and operands are destroyed / re-assigned in between); otherwise every step uses a fresh functor object
	bool reuse = c.value("reuse", false);
	std::map<std::string, F1> pf1;
	std::map<std::string, F2> pf2;
	std::map<std::string, F3> pf3;
	for (const json& st : c.at("steps"))
	{
		std::string op = st.at(0).get<std::string>();
		SetStage(("mtbdd step " + std::to_string(stepNo++) + " " + op).c_str());
		int i = st.at(1).get<int>();
		json ev;
		ev["op"] = op;
		ev["i"] = i;
		if (op == "mk")
		{
			ev["asg"] = st.at(2); ev["v"] = st.at(3); ev["d"] = st.at(4);
			h[i].reset(new MTBDD(mkAsgn(st.at(2)), st.at(3).get<int>(), st.at(4).get<int>()));
		}
		else if (op == "const") { ev["v"] = st.at(2); h[i].reset(new MTBDD(st.at(2).get<int>())); }
		else if (op == "copy") { int j = st.at(2).get<int>(); ev["j"] = j; h[i].reset(new MTBDD(*h[j])); }
		else if (op == "assign") { int j = st.at(2).get<int>(); ev["j"] = j; *h[i] = *h[j]; }
		else if (op == "destroy") { h[i].reset(); }
		else if (op == "apply1")
		{
			F1 fresh; std::string o = st.at(2).get<std::string>(); int j = st.at(3).get<int>();
			F1& f = reuse ? pf1[o] : fresh; f.o = o;
			ev["f"] = f.o; ev["j"] = j;
			h[i].reset(new MTBDD(f(*h[j])));
		}
		else if (op == "apply2")
		{
			F2 fresh; std::string o = st.at(2).get<std::string>(); int j = st.at(3).get<int>(); int k = st.at(4).get<int>();
			F2& f = reuse ? pf2[o] : fresh; f.o = o;
			ev["f"] = f.o; ev["j"] = j; ev["k"] = k;
			h[i].reset(new MTBDD(f(*h[j], *h[k])));
		}
		else if (op == "apply3")
		{
			F3 fresh; std::string o = st.at(2).get<std::string>(); int j = st.at(3).get<int>(); int k = st.at(4).get<int>(); int m = st.at(5).get<int>();
			F3& f = reuse ? pf3[o] : fresh; f.o = o;
			ev["f"] = f.o; ev["j"] = j; ev["k"] = k; ev["m"] = m;
			h[i].reset(new MTBDD(f(*h[j], *h[k], *h[m])));
		}
		else if (op == "project")
		{
			int j = st.at(2).get<int>();
			std::set<size_t> vars;
			for (const json& v : st.at(3)) { vars.insert(phys(v.get<size_t>())); }
			F2 fresh; std::string o = st.at(4).get<std::string>();
			F2& f = reuse ? pf2["project:" + o] : fresh; f.o = o;
			ev["j"] = j; ev["vars"] = st.at(3); ev["f"] = f.o;
			h[i].reset(new MTBDD(h[j]->Project([&vars](size_t v) { return vars.count(v) > 0; }, f)));
		}
		else if (op == "rename")
		{
			int j = st.at(2).get<int>();
			std::map<size_t, size_t> m;
			for (const json& kv : st.at(3)) { m[kv.at(0).get<size_t>()] = kv.at(1).get<size_t>(); }
			ev["j"] = j; ev["map"] = st.at(3);
			h[i].reset(new MTBDD(h[j]->Rename([&m](size_t v) { auto it = m.find(v); return it == m.end() ? v : it->second; })));
		}
		else if (op == "extend")
		{
			int j = st.at(2).get<int>();
			ev["j"] = j; ev["asg"] = st.at(3); ev["off"] = st.at(4);
			h[i].reset(new MTBDD(h[j]->ExtendWith(mkAsgn(st.at(3)), st.at(4).get<size_t>())));
		}
		else if (op == "prefix")
		{
			int j = st.at(2).get<int>();
			ev["j"] = j; ev["asg"] = st.at(3); ev["off"] = st.at(4);
			h[i].reset(new MTBDD(h[j]->GetMtbddForPrefix(mkAsgn(st.at(3)), st.at(4).get<size_t>())));
		}
		else { throw std::runtime_error("vdrive: bad mtbdd step"); }

		json live = json::object();
		for (int x = 0; x < NH; ++x)
		{
			if (!h[x]) { continue; }
			json tab = json::array();
			for (size_t n = 0; n < (static_cast<size_t>(1) << W); ++n)
			{
				tab.push_back(h[x]->GetValue(totalAsgn(W, n)));
			}
			json hv;
			hv["tab"] = tab;
			hv["dflt"] = h[x]->GetDefaultValue();
			live["m" + std::to_string(x)] = hv;
		}
		ev["live"] = live;
		json eq = json::array();
		for (int x = 0; x < NH; ++x)
		{
			for (int y = 0; y < NH; ++y)
			{
				if (h[x] && h[y]) { eq.push_back(json::array({x, y, *h[x] == *h[y], *h[x] != *h[y]})); }
			}
		}
		ev["eq"] = eq;
		ev["store"] = json::array({MTBDD::VerifLeafStoreSize(), MTBDD::VerifInternalStoreSize()});
		out.push_back(ev);
	}
	SetStage("teardown");
	for (int x = 0; x < NH; ++x) { h[x].reset(); }
	res["steps"] = out;
	res["end"] = json::array({MTBDD::VerifLeafStoreSize(), MTBDD::VerifInternalStoreSize()});
	return res;
}
