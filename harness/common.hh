// vdrive: conformance driver between the TLA+ specifications in /verif/spec and libvata.
// Common helpers: JSON <-> automata, op registry.
#ifndef VDRIVE_COMMON_HH
#define VDRIVE_COMMON_HH

#include <nlohmann/json.hpp>
#include <vata/explicit_tree_aut.hh>

#include <functional>
#include <map>
#include <memory>
#include <string>
#include <vector>

using json = nlohmann::json;

// every op takes the case object and returns the "res" object; it may throw (-> outcome exception:<what>)
typedef std::function<json(const json&)> OpFn;
std::map<std::string, OpFn>& OpRegistry();
struct OpRegistrar { OpRegistrar(const char* name, OpFn fn) { OpRegistry()[name] = fn; } };
#define VDRIVE_OP(name) \
	static json op_##name(const json& c); \
	static OpRegistrar reg_##name(#name, op_##name); \
	static json op_##name(const json& c)

// the supervisor shows this string for a case that crashed / hung
void SetStage(const char* stage);

// per-case mode flags (reset by the supervisor before every case)
extern bool g_relCopy;
extern bool g_buildViaLoad;     // "build": "load" - automata are assembled through LoadFromAutDesc instead of AddTransition / SetStateFinal
void ResetCaseFlags();
// "amode": "copy" - while the operation runs, a COPY of operand A (sharing its storage) is alive; it is read back afterwards
// as res.keep_after and must still have A's value (an operation must not write into storage it shares)
void ShareIfAsked(const VATA::ExplicitTreeAut& a, const nlohmann::json& c);

// ---------------------------------------------------------------- tree automata
typedef VATA::ExplicitTreeAut TA;

// a private on-the-fly alphabet together with the name <-> number maps the driver needs
struct Alpha
{
	std::shared_ptr<TA::OnTheFlyAlphabet> otf;
	TA::AlphabetType ptr;
	std::map<std::pair<std::string, size_t>, TA::SymbolType> fwd;
	std::map<TA::SymbolType, std::pair<std::string, size_t>> bwd;

	Alpha();
	TA::SymbolType Sym(const std::string& name, size_t rank);     // registers if new
	void RegisterAll(const json& syms);                           // [[name, rank]...] in this order
	void Refresh();                                               // re-read the dictionary
	json Name(TA::SymbolType s) const;                            // name, or "#<n>" if unknown
};

// {"fin":[..], "rules":[[name,[kids],parent]..]}: rules are added in list order, then final states
void BuildTA(TA& aut, const json& j, Alpha& alpha);
TA MakeTA(const json& j, Alpha& alpha);
// read back through the public iteration interface (a bag: duplicates stay visible)
json ReadTA(const TA& aut, const Alpha& alpha);
json StateMapToJson(const VATA::AutBase::StateToStateMap& m);
size_t StIn(size_t q);       // case state number -> library state number ("huge" presentation)
size_t StOut(size_t q);
std::string ExcName(const std::exception& e);
void NoteKeep(json& res, const Alpha& alpha);

#endif
