// ops on explicit finite (word) automata: C09, C10 (and the FA side of C11)
// NFA value: {"start":[..], "fin":[..], "delta":[[p,"a",q]..]}; automata are built through
// LoadFromAutDesc with a translator that maps the state name "q<N>" to the number N, and read back by
// DumpToString + TimbukParser (ExplicitFiniteAut exposes no other read access to its transitions).
#include "common.hh"
#include <set>
#include "fa_util.hh"

#include <vata/incl_param.hh>

using VATA::AutBase;
using VATA::InclParam;

FA MakeFA(const json& j)
{
	VATA::Util::AutDescription desc;
	desc.name = "A";
	for (const json& q : j.at("start"))
	{
		std::string sym = "x";
		desc.symbols.insert(std::make_pair(sym, 0));
		desc.transitions.insert(VATA::Util::AutDescription::Transition(
			std::vector<std::string>(), sym, "q" + std::to_string(q.get<size_t>())));
	}
	for (const json& q : j.at("fin")) { desc.finalStates.insert("q" + std::to_string(q.get<size_t>())); }
	for (const json& e : j.at("delta"))
	{
		std::string sym = e.at(1).get<std::string>();
		desc.symbols.insert(std::make_pair(sym, 1));
		desc.transitions.insert(VATA::Util::AutDescription::Transition(
			std::vector<std::string>(1, "q" + std::to_string(e.at(0).get<size_t>())), sym,
			"q" + std::to_string(e.at(2).get<size_t>())));
	}
	FA aut;
	AutBase::StateDict dict;
	AutBase::StringToStateTranslWeak transl(dict,
		[](const std::string& s) { return static_cast<AutBase::StateType>(std::stoul(s.substr(1))); });
	aut.LoadFromAutDesc(desc, transl);
	return aut;
}

json ReadFA(const FA& aut)
{
	VATA::Serialization::TimbukSerializer ser;
	std::string txt = aut.DumpToString(ser);
	VATA::Parsing::TimbukParser parser;
	VATA::Util::AutDescription desc = parser.ParseString(txt);
	json res;
	std::set<size_t> start, fin;
	json delta = json::array();
	for (auto& q : desc.finalStates) { fin.insert(std::stoul(q)); }
	for (auto& t : desc.transitions)
	{
		if (t.first.empty()) { start.insert(std::stoul(t.third)); }
		else if (t.first.size() == 1) { delta.push_back(json::array({std::stoul(t.first[0]), t.second, std::stoul(t.third)})); }
		else { throw std::runtime_error("vdrive: dump of a finite automaton has a rule of rank > 1"); }
	}
	res["start"] = start;
	res["fin"] = fin;
	res["delta"] = delta;
	return res;
}

// the second operand: "copy" = a copy of A, "extend" = a copy of A edited through the API into the value jb (jb's start /
// final states and edges contain A's; only what A lacks is added, so that nothing is detached needlessly)
FA MakeSecondFA(const FA& a, const json& ja, const json& jb, const std::string& bmode)
{
	if (bmode == "copy" || bmode == "alias") { return FA(a); }
	if (bmode != "extend") { return MakeFA(jb); }
	FA b(a);
	auto symOf = [](FA& x, const std::string& name) { auto tr = x.GetAlphabet()->GetSymbolTransl(); return (*tr)(name); };
	std::set<std::string> have;
	for (const json& e : ja.at("delta")) { have.insert(e.dump()); }
	std::set<size_t> hs, hf;
	for (const json& q : ja.at("start")) { hs.insert(q.get<size_t>()); }
	for (const json& q : ja.at("fin")) { hf.insert(q.get<size_t>()); }
	for (const json& q : jb.at("fin")) { if (!hf.count(q.get<size_t>())) { b.SetStateFinal(q.get<size_t>()); } }
	for (const json& q : jb.at("start")) { if (!hs.count(q.get<size_t>())) { b.SetStateStart(q.get<size_t>(), symOf(b, "x")); } }
	for (const json& e : jb.at("delta"))
	{
		if (!have.count(e.dump())) { b.AddTransition(e.at(0).get<size_t>(), symOf(b, e.at(1).get<std::string>()), e.at(2).get<size_t>()); }
	}
	return b;
}

namespace {

json prodMapToJson(const AutBase::ProductTranslMap& m)
{
	std::vector<std::vector<size_t>> v;
	for (auto& kv : m) { v.push_back({kv.first.first, kv.first.second, kv.second}); }
	std::sort(v.begin(), v.end());
	return v;
}

} // namespace

// {"op":"faincl","A","B","sel":"anti"|"cd"|"cb","perturb":N}
VDRIVE_OP(faincl)
{
	FA a = MakeFA(c.at("A"));
	std::unique_ptr<FA> keep;
	if (c.value("amode", "") == "copy") { keep.reset(new FA(a)); }
	// "bmode": "alias" = the same object is both operands, "copy" = B is a copy of A sharing its storage (value B = A)
	std::string bmode = c.value("bmode", "");
	FA bc = MakeSecondFA(a, c.at("A"), c.at("B"), bmode);
	const FA& b = (bmode == "alias") ? a : bc;
	// heap-layout perturbation: the algorithms order macro-states by address
	std::vector<std::unique_ptr<char[]>> dummies;
	for (size_t i = 0; i < c.value("perturb", 0u); ++i) { dummies.emplace_back(new char[24 + 8 * (i % 5)]); }
	std::string sel = c.at("sel").get<std::string>();
	InclParam ip;
	if (sel == "anti") { ip.SetAlgorithm(InclParam::e_algorithm::antichains); }
	else
	{
		ip.SetAlgorithm(InclParam::e_algorithm::congruences);
		ip.SetSearchOrder(sel == "cb" ? InclParam::e_search_order::breadth : InclParam::e_search_order::depth);
	}
	ip.SetUseSimulation(false);
	SetStage(("CheckInclusion:" + sel).c_str());
	// "swap": the second operand (e.g. the edited copy) is the smaller one
	bool v = c.value("swap", false) ? FA::CheckInclusion(b, a, ip) : FA::CheckInclusion(a, b, ip);
	json res;
	res["v"] = v ? "T" : "F";
	SetStage("readback");
	res["A_after"] = ReadFA(a);
	res["B_after"] = ReadFA(b);
	if (keep) { res["keep_after"] = ReadFA(*keep); }
	return res;
}

// {"op":"faop","kind":"union"|"uniondisj"|"isect"|"reverse"|"unreach"|"useless"|"witness","A",["B"]}
VDRIVE_OP(faop)
{
	std::string kind = c.at("kind").get<std::string>();
	json res;
	// "preA" / "preB": the operand is first put through another operation (results of operations are operands too);
	// the intermediate value is logged as A1 / B1 and the contract is judged on it
	auto prep = [&res](const json& j, const std::string& pre, const char* key) -> FA {
		FA x = MakeFA(j);
		if (pre.empty() || pre == "none") { return x; }
		SetStage(("pre-op " + pre).c_str());
		FA y = (pre == "reverse") ? x.Reverse()
			: (pre == "unreach") ? x.RemoveUnreachableStates()
			: (pre == "useless") ? x.RemoveUselessStates()
			: (pre == "witness") ? x.GetCandidateTree()
			: (pre == "copy") ? FA(x)
			: throw std::runtime_error("vdrive: bad pre-op");
		res[key] = ReadFA(y);
		return y;
	};
	FA a = prep(c.at("A"), c.value("preA", ""), "A1");
	// "amode": "copy" - a copy of the operand (sharing its storage) is alive during the call and read back afterwards
	std::unique_ptr<FA> keep;
	if (c.value("amode", "") == "copy") { keep.reset(new FA(a)); }
	bool binary = (kind == "union" || kind == "uniondisj" || kind == "isect");
	if (binary)
	{
		std::string bmode = c.value("bmode", "");
		FA bc = (bmode == "copy" || bmode == "extend") ? MakeSecondFA(a, c.at("A"), c.at("B"), bmode)
			: ((bmode == "alias") ? FA() : prep(c.at("B"), c.value("preB", ""), "B1"));
		const FA& b = (bmode == "alias") ? a : bc;
		SetStage(kind.c_str());
		if (kind == "union")
		{
			AutBase::StateToStateMap ml, mr;
			FA r = c.value("swap", false) ? FA::Union(b, a, &mr, &ml) : FA::Union(a, b, &ml, &mr);
			SetStage("dump(R)");
			res["R"] = ReadFA(r);
			res["mapL"] = StateMapToJson(ml);
			res["mapR"] = StateMapToJson(mr);
		}
		else if (kind == "uniondisj")
		{
			FA r = FA::UnionDisjointStates(a, b);
			SetStage("dump(R)");
			res["R"] = ReadFA(r);
		}
		else
		{
			AutBase::ProductTranslMap pm;
			bool nomap = c.value("nomap", false);       // the default argument (no product map)
			bool swap = c.value("swap", false);         // the second operand (e.g. the edited copy) as left operand
			FA r = nomap ? (swap ? FA::Intersection(b, a) : FA::Intersection(a, b))
			             : (swap ? FA::Intersection(b, a, &pm) : FA::Intersection(a, b, &pm));
			SetStage("dump(R)");
			res["R"] = ReadFA(r);
			if (!nomap) { res["map"] = prodMapToJson(pm); }
		}
		SetStage("readback");
		res["B_after"] = ReadFA(b);
	}
	else
	{
		SetStage(kind.c_str());
		if (kind == "reverse") { FA r = a.Reverse(); SetStage("dump(R)"); res["R"] = ReadFA(r); }
		else if (kind == "unreach") { FA r = a.RemoveUnreachableStates(); SetStage("dump(R)"); res["R"] = ReadFA(r); }
		else if (kind == "useless") { FA r = a.RemoveUselessStates(); SetStage("dump(R)"); res["R"] = ReadFA(r); }
		else if (kind == "witness") { FA r = a.GetCandidateTree(); SetStage("dump(R)"); res["R"] = ReadFA(r); }
		else { throw std::runtime_error("vdrive: bad kind"); }
	}
	SetStage("readback");
	res["A_after"] = ReadFA(a);
	if (keep) { res["keep_after"] = ReadFA(*keep); }
	return res;
}

// ---------------------------------------------------------------- agreement arm for C09
// {"op":"faagree","seed":S,"count":N}: random NFA pairs generated here, the three selections run on each (each pair
// under its own alarm-free loop: a hang kills the batch and the supervisor reports it); only pairs on which the
// selections disagree come back, one "faincl" event per selection, for TLC.
#include <random>
namespace {
json randNfa(std::mt19937& rng, size_t nq, size_t ne, size_t nsym, size_t base)
{
	static const char* SY[3] = {"a", "b", "c"};
	json delta = json::array();
	for (size_t i = 0; i < ne; ++i) { delta.push_back(json::array({base + rng() % nq, SY[rng() % nsym], base + rng() % nq})); }
	json start = json::array(), fin = json::array();
	for (size_t q = 0; q < nq; ++q) { if (rng() % 100 < 35) { start.push_back(base + q); } if (rng() % 100 < 35) { fin.push_back(base + q); } }
	if (start.empty()) { start.push_back(base + rng() % nq); }
	if (fin.empty()) { fin.push_back(base + rng() % nq); }
	json a;
	a["start"] = start; a["fin"] = fin; a["delta"] = delta;
	return a;
}
}

VDRIVE_OP(faagree)
{
	std::mt19937 rng(c.at("seed").get<unsigned>());
	size_t count = c.at("count").get<size_t>();
	json disagree = json::array();
	size_t noninc = 0;
	for (size_t i = 0; i < count; ++i)
	{
		size_t nsym = 1 + rng() % 3;
		json ja = randNfa(rng, 1 + rng() % 5, rng() % 10, nsym, (rng() % 2) ? 0 : 2);
		json jb = randNfa(rng, 1 + rng() % 5, rng() % 12, nsym, (rng() % 2) ? 0 : 10);
		SetStage(("faagree pair " + std::to_string(i) + " of seed " + std::to_string(c.at("seed").get<unsigned>())).c_str());
		FA a = MakeFA(ja);
		FA b = MakeFA(jb);
		std::string v[3];
		const char* names[3] = {"anti", "cd", "cb"};
		for (int k = 0; k < 3; ++k)
		{
			InclParam ip;
			if (k == 0) { ip.SetAlgorithm(InclParam::e_algorithm::antichains); }
			else
			{
				ip.SetAlgorithm(InclParam::e_algorithm::congruences);
				ip.SetSearchOrder(k == 2 ? InclParam::e_search_order::breadth : InclParam::e_search_order::depth);
			}
			ip.SetUseSimulation(false);
			try { v[k] = FA::CheckInclusion(a, b, ip) ? "T" : "F"; }
			catch (const std::exception& e) { v[k] = "X:" + ExcName(e); }
		}
		if (v[0] == "F") { ++noninc; }
		if ((v[0] != v[1] || v[1] != v[2] || v[0].size() != 1) && disagree.size() < 30)
		{
			for (int k = 0; k < 3; ++k)
			{
				json ev;
				ev["op"] = "faincl"; ev["sel"] = names[k]; ev["A"] = ja; ev["B"] = jb; ev["outcome"] = "ok";
				ev["src"] = "fa-agreement-arm";
				ev["id"] = json::array({"faagree", c.at("seed"), i});
				json r;
				r["v"] = v[k];
				r["A_after"] = ReadFA(a);
				r["B_after"] = ReadFA(b);
				ev["res"] = r;
				disagree.push_back(ev);
			}
		}
	}
	json res;
	res["count"] = count;
	res["nonincluded"] = noninc;
	res["disagree"] = disagree;
	return res;
}

// ---------------------------------------------------------------- step-level binding of the Layer-2 model FAAntichain
// {"op":"faantitrace","A","B"}: runs the antichain selection with the guarded step hook installed; returns the events
// (Start with the operands as the algorithm sees them, Pick) followed by the verdict the call returned.
#include "util/verif_hook.hh"
namespace {
std::vector<std::string>* g_faSink = nullptr;
void faSink(const std::string& s) { if (g_faSink) { g_faSink->push_back(s); } }
}

json runStepTrace(const json& c, const InclParam& ip)
{
	FA a = MakeFA(c.at("A"));
	FA b = MakeFA(c.at("B"));
	std::vector<std::string> events;
	g_faSink = &events;
	VATA::Util::Verif::Sink() = faSink;
	bool v;
	try { v = FA::CheckInclusion(a, b, ip); }
	catch (...) { VATA::Util::Verif::Sink() = nullptr; g_faSink = nullptr; throw; }
	VATA::Util::Verif::Sink() = nullptr;
	g_faSink = nullptr;
	json evs = json::array();
	for (const std::string& s : events)
	{
		json e = json::parse(s);
		if (e.contains("mode")) { continue; }       // step events of nested operations (trimming inside the preparation) carry a mode
		evs.push_back(e);
	}
	json verdict;
	verdict["e"] = "Verdict";
	verdict["v"] = v;
	evs.push_back(verdict);
	json res;
	res["events"] = evs;
	res["v"] = v ? "T" : "F";
	return res;
}

VDRIVE_OP(faantitrace)
{
	InclParam ip;
	ip.SetAlgorithm(InclParam::e_algorithm::antichains);
	ip.SetUseSimulation(false);
	return runStepTrace(c, ip);
}

// {"op":"facongrtrace","A","B","sel":"cd"|"cb"}: the same for the congruence selections (events Start, Step, Add)
VDRIVE_OP(facongrtrace)
{
	InclParam ip;
	ip.SetAlgorithm(InclParam::e_algorithm::congruences);
	ip.SetSearchOrder(c.at("sel").get<std::string>() == "cb" ? InclParam::e_search_order::breadth : InclParam::e_search_order::depth);
	ip.SetUseSimulation(false);
	return runStepTrace(c, ip);
}

// ---------------------------------------------------------------- step-level binding of the Layer-2 model FAOps
// {"op":"faoptrace","kind":"isect"|"unreach"|"witness","A",["B"]}: runs the operation with the step hook installed; returns Start
// (operands), the Pop events of the operation's own loop (events of nested operations carry another mode and are dropped)
// and Result (the automaton returned; for isect read back through the product map as pairs).
VDRIVE_OP(faoptrace)
{
	std::string kind = c.at("kind").get<std::string>();
	FA a = MakeFA(c.at("A"));
	FA b = c.contains("B") ? MakeFA(c.at("B")) : FA();
	std::string mode = (kind == "isect") ? "faisect" : ((kind == "unreach") ? "faunreach" : "fawitness");
	std::vector<std::string> events;
	g_faSink = &events;
	VATA::Util::Verif::Sink() = faSink;
	FA r;
	AutBase::ProductTranslMap pm;
	try
	{
		if (kind == "isect") { r = FA::Intersection(a, b, &pm); }
		else if (kind == "unreach") { r = a.RemoveUnreachableStates(); }
		else if (kind == "witness") { r = a.GetCandidateTree(); }
		else { throw std::runtime_error("vdrive: bad kind"); }
	}
	catch (...) { VATA::Util::Verif::Sink() = nullptr; g_faSink = nullptr; throw; }
	VATA::Util::Verif::Sink() = nullptr;
	g_faSink = nullptr;
	json evs = json::array();
	json start;
	start["e"] = "Start"; start["kind"] = kind; start["A"] = ReadFA(a);
	if (kind == "isect") { start["B"] = ReadFA(b); }
	evs.push_back(start);
	size_t starts = 0;
	for (const std::string& s : events)
	{
		json e = json::parse(s);
		if (e.value("mode", "") != mode) { continue; }
		if (e.at("e") == "Start") { if (++starts > 1) { break; } continue; }
		evs.push_back(e);
	}
	json done;
	done["e"] = "Result";
	done["R"] = ReadFA(r);
	if (kind == "isect") { done["map"] = prodMapToJson(pm); }
	evs.push_back(done);
	json res;
	res["events"] = evs;
	return res;
}
