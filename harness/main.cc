// vdrive: supervisor.  Replays NDJSON cases against libvata in forked workers with a per-case
// watchdog and records one NDJSON event per case: the case itself plus "outcome" and "res".
//
//   vdrive run <cases.ndjson> <out-prefix> [--workers N] [--timeout-ms T]
//   vdrive ops
//
// Worker k executes the cases i = k (mod N) and appends to <out-prefix>.<k>.ndjson.
// A worker that dies on a signal (crash) or on the alarm (hang) is restarted after that case and
// the supervisor writes the event with outcome "crash:<SIG>" / "hang" and the stage the op had reached.

#include "common.hh"

#include <csignal>
#include <cstdio>
#include <cstring>
#include <fstream>
#include <iostream>
#include <sys/mman.h>
#include <sys/resource.h>
#include <sys/time.h>
#include <sys/wait.h>
#include <unistd.h>
#include <fcntl.h>

std::map<std::string, OpFn>& OpRegistry()
{
	static std::map<std::string, OpFn> reg;
	return reg;
}

namespace {

struct Shared
{
	long cur;
	char stage[120];
};

Shared* g_shared = nullptr;   // array, one per worker
int g_me = 0;

void writeLine(int fd, const std::string& s)
{
	std::string line = s + "\n";
	size_t off = 0;
	while (off < line.size())
	{
		ssize_t n = ::write(fd, line.data() + off, line.size() - off);
		if (n <= 0) { _exit(97); }
		off += static_cast<size_t>(n);
	}
}

void setTimer(long ms)
{
	struct itimerval tv;
	memset(&tv, 0, sizeof(tv));
	tv.it_value.tv_sec = ms / 1000;
	tv.it_value.tv_usec = (ms % 1000) * 1000;
	setitimer(ITIMER_REAL, &tv, nullptr);
}

void workerMain(int k, int nworkers, long start, const std::vector<std::string>& lines,
	const std::string& outPrefix, long timeoutMs)
{
	g_me = k;
	signal(SIGALRM, SIG_DFL);
	std::string fname = outPrefix + "." + std::to_string(k) + ".ndjson";
	int fd = ::open(fname.c_str(), O_WRONLY | O_CREAT | O_APPEND, 0644);
	if (fd < 0) { _exit(98); }

	for (long i = start; i < static_cast<long>(lines.size()); i += nworkers)
	{
		g_shared[k].cur = i;
		SetStage("parse");
		json c;
		try { c = json::parse(lines[i]); }
		catch (const std::exception& e)
		{
			json ev; ev["outcome"] = "badcase"; ev["what"] = e.what(); ev["line"] = i;
			writeLine(fd, ev.dump());
			continue;
		}
		long tmo = c.value("tmo", timeoutMs);
		json ev = c;
		setTimer(tmo);
		try
		{
			ResetCaseFlags();
			g_buildViaLoad = (c.value("build", "") == "load");
			auto it = OpRegistry().find(c.at("op").get<std::string>());
			if (it == OpRegistry().end()) { throw std::runtime_error("vdrive: unknown op"); }
			SetStage("op");
			ev["res"] = it->second(c);
			ev["outcome"] = "ok";
		}
		catch (const std::exception& e)
		{
			ev["outcome"] = std::string("exception:") + ExcName(e);
			ev["what"] = e.what();
			ev["stage"] = std::string(g_shared[k].stage);
		}
		catch (...)
		{
			ev["outcome"] = "exception:unknown";
			ev["stage"] = std::string(g_shared[k].stage);
		}
		setTimer(0);
		writeLine(fd, ev.dump());
	}
	::close(fd);
	_exit(0);
}

pid_t spawn(int k, int nworkers, long start, const std::vector<std::string>& lines,
	const std::string& outPrefix, long timeoutMs)
{
	pid_t pid = fork();
	if (pid < 0) { perror("fork"); exit(2); }
	if (pid == 0)
	{
		workerMain(k, nworkers, start, lines, outPrefix, timeoutMs);
		_exit(0);
	}
	return pid;
}

} // namespace

void SetStage(const char* stage)
{
	if (g_shared == nullptr) { return; }
	strncpy(g_shared[g_me].stage, stage, sizeof(g_shared[g_me].stage) - 1);
	g_shared[g_me].stage[sizeof(g_shared[g_me].stage) - 1] = 0;
}

int main(int argc, char** argv)
{
	if (argc >= 2 && std::string(argv[1]) == "ops")
	{
		for (auto& kv : OpRegistry()) { std::cout << kv.first << "\n"; }
		return 0;
	}
	if (argc < 4 || std::string(argv[1]) != "run")
	{
		std::cerr << "usage: vdrive run <cases.ndjson> <out-prefix> [--workers N] [--timeout-ms T]\n";
		return 2;
	}
	std::string inFile = argv[2], outPrefix = argv[3];
	int nworkers = 16;
	long timeoutMs = 5000;
	for (int i = 4; i + 1 < argc; i += 2)
	{
		std::string a = argv[i];
		if (a == "--workers") { nworkers = atoi(argv[i + 1]); }
		else if (a == "--timeout-ms") { timeoutMs = atol(argv[i + 1]); }
	}
	if (nworkers < 1) { nworkers = 1; }

	std::vector<std::string> lines;
	{
		std::ifstream in(inFile);
		if (!in) { std::cerr << "vdrive: cannot read " << inFile << "\n"; return 2; }
		std::string l;
		while (std::getline(in, l)) { if (!l.empty()) { lines.push_back(l); } }
	}
	for (int k = 0; k < nworkers; ++k)
	{	// truncate outputs
		std::string fname = outPrefix + "." + std::to_string(k) + ".ndjson";
		std::ofstream out(fname, std::ios::trunc);
	}

	g_shared = static_cast<Shared*>(mmap(nullptr, sizeof(Shared) * nworkers, PROT_READ | PROT_WRITE,
		MAP_SHARED | MAP_ANONYMOUS, -1, 0));
	if (g_shared == MAP_FAILED) { perror("mmap"); return 2; }
	memset(g_shared, 0, sizeof(Shared) * nworkers);

	std::map<pid_t, int> pidToWorker;
	for (int k = 0; k < nworkers; ++k)
	{
		g_shared[k].cur = -1;
		pidToWorker[spawn(k, nworkers, k, lines, outPrefix, timeoutMs)] = k;
	}

	long crashes = 0, hangs = 0;
	while (!pidToWorker.empty())
	{
		int status = 0;
		pid_t pid = wait(&status);
		if (pid < 0) { break; }
		auto it = pidToWorker.find(pid);
		if (it == pidToWorker.end()) { continue; }
		int k = it->second;
		pidToWorker.erase(it);
		if (WIFEXITED(status) && WEXITSTATUS(status) == 0) { continue; }

		long i = g_shared[k].cur;
		std::string outcome;
		if (WIFSIGNALED(status))
		{
			int sig = WTERMSIG(status);
			if (sig == SIGALRM) { outcome = "hang"; ++hangs; }
			else { outcome = std::string("crash:") + strsignal(sig); ++crashes; }
		}
		else
		{	// a sanitizer report or an abnormal exit code
			outcome = "crash:exit" + std::to_string(WEXITSTATUS(status)); ++crashes;
		}
		if (i >= 0 && i < static_cast<long>(lines.size()))
		{
			json ev;
			try { ev = json::parse(lines[i]); } catch (...) { ev = json::object(); }
			ev["outcome"] = outcome;
			ev["stage"] = std::string(g_shared[k].stage);
			std::string fname = outPrefix + "." + std::to_string(k) + ".ndjson";
			int fd = ::open(fname.c_str(), O_WRONLY | O_CREAT | O_APPEND, 0644);
			if (fd >= 0) { writeLine(fd, ev.dump()); ::close(fd); }
			pidToWorker[spawn(k, nworkers, i + nworkers, lines, outPrefix, timeoutMs)] = k;
		}
	}
	std::cerr << "vdrive: cases=" << lines.size() << " crashes=" << crashes << " hangs=" << hangs << "\n";
	return 0;
}
