// binding of the Layer-2 model SimEnc (spec/SimEnc.tla) to the code: the tree-automaton -> LTS encodings of
// src/explicit_tree_transl.hh are member templates of the (private) core class; they are instantiated here exactly the way
// src/explicit_tree_sim.cc instantiates them, and the LTS they build is read back through ExplicitLTS's public accessors.
// No hook is needed.
#include "common.hh"

#include "explicit_tree_aut_core.hh"
#include "explicit_tree_transl.hh"

#include <map>

using VATA::AutBase;
using VATA::ExplicitLTS;
using VATA::ExplicitTreeAutCore;

namespace {
json ltsToJson(const ExplicitLTS& lts)
{
	json edges = json::array();
	for (size_t a = 0; a < lts.labels(); ++a)
	{
		const std::vector<std::vector<size_t>>& post = lts.post(a);
		for (size_t q = 0; q < post.size(); ++q)
		{
			for (size_t r : post[q]) { edges.push_back(json::array({q, a, r})); }
		}
	}
	json res;
	res["n"] = lts.states();
	res["labels"] = lts.labels();
	res["edges"] = edges;
	return res;
}
}

// {"op":"simenc","A","n","dir":"down"|"up"}: states of A are 0..n-1.  Returns the numbering chosen by the weak translator
// (idx), the LTS, for "up" also the initial partition and block relation, and the simulation the engine computes on it
// (n x n matrix over the automaton's states, read back through idx as StateDiscontBinaryRelation would).
VDRIVE_OP(simenc)
{
	size_t n = c.at("n").get<size_t>();
	bool up = c.at("dir").get<std::string>() == "up";
	std::map<std::pair<std::string, size_t>, size_t> symNo;
	ExplicitTreeAutCore a;
	for (const json& r : c.at("A").at("rules"))
	{
		std::pair<std::string, size_t> key(r[0].get<std::string>(), r[1].size());
		if (!symNo.count(key)) { size_t k = 100 + symNo.size() * 7; symNo[key] = k; }
		ExplicitTreeAutCore::StateTuple kids;
		for (const json& k : r[1]) { kids.push_back(k.get<size_t>()); }
		a.AddTransition(kids, symNo[key], r[2].get<size_t>());
	}
	for (const json& q : c.at("A").at("fin")) { a.SetStateFinal(q.get<size_t>()); }

	AutBase::StateToStateMap translMap;
	size_t stateCnt = 0;
	AutBase::StateToStateTranslWeak transl(translMap, [&stateCnt](const AutBase::StateType&) { return stateCnt++; });
	json res;
	VATA::Util::BinaryRelation sim;
	if (!up)
	{
		SetStage("TranslateDownward");
		ExplicitLTS lts = a.TranslateDownward(n, transl);
		res["lts"] = ltsToJson(lts);
		SetStage("computeSimulation(down encoding)");
		sim = lts.computeSimulation(n);
	}
	else
	{
		SetStage("TranslateUpward");
		std::vector<std::vector<size_t>> partition;
		AutBase::StateBinaryRelation relation;
		ExplicitLTS lts = a.TranslateUpward(partition, relation, VATA::Util::Identity(n), transl);
		res["lts"] = ltsToJson(lts);
		res["part"] = partition;
		json rel = json::array();
		for (size_t i = 0; i < partition.size(); ++i)
		{
			json row = json::array();
			for (size_t j = 0; j < partition.size(); ++j) { row.push_back(relation.get(i, j) ? 1 : 0); }
			rel.push_back(row);
		}
		res["rel"] = rel;
		SetStage("computeSimulation(up encoding)");
		sim = lts.computeSimulation(partition, relation, n);
	}
	res["idx"] = StateMapToJson(translMap);
	json m = json::array();
	for (size_t q = 0; q < n; ++q)
	{
		json row = json::array();
		for (size_t r = 0; r < n; ++r)
		{
			auto iq = translMap.find(q), ir = translMap.find(r);
			row.push_back((iq == translMap.end() || ir == translMap.end()) ? -1 : (sim.get(iq->second, ir->second) ? 1 : 0));
		}
		m.push_back(row);
	}
	res["m"] = m;
	return res;
}
