// C19: invariance under renaming / reordering and the laws of language inclusion on corpus automata.
// {"op":"laws","A":file,"B":file,"C":file,"seed":N,"call_ms":T}
// Every library call that may be slow runs in a forked child with its own time limit; a time-out is "?" (no verdict).
#include "common.hh"

#include <vata/incl_param.hh>
#include <vata/sim_param.hh>
#include <vata/parsing/timbuk_parser.hh>
#include <vata/serialization/timbuk_serializer.hh>

#include <fstream>
#include <random>
#include <sstream>
#include <poll.h>
#include <signal.h>
#include <sys/wait.h>
#include <unistd.h>

using VATA::AutBase;
using VATA::InclParam;
using VATA::SimParam;

namespace {

std::string readFile(const std::string& path)
{
	std::ifstream in(path);
	if (!in) { throw std::runtime_error("vdrive: cannot read " + path); }
	std::stringstream ss;
	ss << in.rdbuf();
	return ss.str();
}

// run f in a child process; returns its string, "?" on time-out, "!<sig>" if the child died
template <class F>
std::string timed(long ms, F f)
{
	int fd[2];
	if (pipe(fd) != 0) { throw std::runtime_error("vdrive: pipe"); }
	pid_t pid = fork();
	if (pid < 0) { throw std::runtime_error("vdrive: fork"); }
	if (pid == 0)
	{
		close(fd[0]);
		signal(SIGALRM, SIG_DFL);
		std::string r;
		try { r = f(); }
		catch (const VATA::NotImplementedException&) { r = "N"; }
		catch (const std::exception& e) { r = "X:" + ExcName(e); }
		catch (...) { r = "X:unknown"; }
		ssize_t n = write(fd[1], r.data(), r.size());
		(void)n;
		_exit(0);
	}
	close(fd[1]);
	std::string res;
	struct pollfd p;
	p.fd = fd[0];
	p.events = POLLIN;
	long waited = 0;
	bool done = false;
	while (!done)
	{
		int rc = poll(&p, 1, 50);
		waited += 50;
		if (rc > 0)
		{
			char buf[256];
			ssize_t n = read(fd[0], buf, sizeof(buf));
			if (n > 0) { res.append(buf, static_cast<size_t>(n)); }
			else { done = true; }
		}
		else if (waited >= ms)
		{
			kill(pid, SIGKILL);
			res = "?";
			done = true;
		}
	}
	close(fd[0]);
	int status = 0;
	waitpid(pid, &status, 0);
	if (res != "?" && WIFSIGNALED(status)) { res = "!" + std::to_string(WTERMSIG(status)); }
	if (res.empty()) { res = "!empty"; }
	return res;
}

struct Sel { bool down, rec, opt, sim; };
const Sel SELS[8] = {
	{false, false, false, false}, {false, false, false, true},
	{true, false, false, false}, {true, false, false, true},
	{true, true, false, false}, {true, true, false, true},
	{true, true, true, false}, {true, true, true, true}};

bool inclSel(const TA& a0, const TA& b0, int k)
{
	const Sel& sel = SELS[k];
	InclParam ip;
	ip.SetAlgorithm(InclParam::e_algorithm::antichains);
	ip.SetDirection(sel.down ? InclParam::e_direction::downward : InclParam::e_direction::upward);
	ip.SetUseRecursion(sel.rec);
	ip.SetUseDownwardCacheImpl(sel.opt);
	ip.SetUseSimulation(sel.sim);
	if (!sel.sim) { return TA::CheckInclusion(a0, b0, ip); }
	TA a(a0), b(b0);
	AutBase::StateType states = AutBase::SanitizeAutsForInclusion(a, b);
	TA u = TA::UnionDisjointStates(a, b);
	SimParam sp;
	sp.SetRelation(sel.down ? SimParam::e_sim_relation::TA_DOWNWARD : SimParam::e_sim_relation::TA_UPWARD);
	sp.SetNumStates(states);
	AutBase::StateDiscontBinaryRelation sim = u.ComputeSimulation(sp);
	ip.SetSimulation(&sim);
	return TA::CheckInclusion(a, b, ip);
}

std::string tf(bool b) { return b ? "T" : "F"; }

struct Loaded
{
	TA aut;
	size_t n;      // states are 0..n-1
};

Loaded loadFile(const std::string& path, TA::AlphabetType& alpha)
{
	Loaded l;
	l.aut.SetAlphabet(alpha);
	VATA::Parsing::TimbukParser parser;
	AutBase::StateDict dict;
	l.aut.LoadFromString(parser, readFile(path), dict);
	l.n = dict.size();
	return l;
}

// the twin: states renamed by the permutation pi, rules inserted in a shuffled order, symbols registered in a
// shuffled order in a fresh alphabet (so that symbol numbers differ)
TA makeTwin(const TA& a, const std::vector<size_t>& pi, std::mt19937& rng,
	TA::AlphabetType& srcAlpha, std::shared_ptr<TA::OnTheFlyAlphabet>& dstAlpha)
{
	TA t;
	TA::AlphabetType dstPtr = dstAlpha;
	t.SetAlphabet(dstPtr);
	auto back = srcAlpha->GetSymbolBackTransl();
	auto fwd = dstAlpha->GetSymbolTransl();
	std::vector<TA::Transition> rules;
	for (const TA::Transition& r : a) { rules.push_back(r); }
	std::shuffle(rules.begin(), rules.end(), rng);
	for (const TA::Transition& r : rules)
	{
		TA::StateTuple kids;
		for (size_t k : r.GetChildren()) { kids.push_back(pi.at(k)); }
		TA::StringRank sr = (*back)(r.GetSymbol());
		t.AddTransition(kids, (*fwd)(sr), pi.at(r.GetParent()));
	}
	std::vector<size_t> fin(a.GetFinalStates().begin(), a.GetFinalStates().end());
	std::shuffle(fin.begin(), fin.end(), rng);
	for (size_t q : fin) { t.SetStateFinal(pi.at(q)); }
	return t;
}

std::vector<size_t> randomPerm(size_t n, std::mt19937& rng)
{
	std::vector<size_t> p(n);
	for (size_t i = 0; i < n; ++i) { p[i] = i; }
	std::shuffle(p.begin(), p.end(), rng);
	return p;
}

size_t countStates(const TA& a) { return a.GetUsedStates().size(); }
size_t countRules(const TA& a) { size_t n = 0; for (const TA::Transition& t : a) { (void)t; ++n; } return n; }

} // namespace

VDRIVE_OP(laws)
{
	long ms = c.value("call_ms", 3000);
	std::mt19937 rng(c.value("seed", 1u));
	std::shared_ptr<TA::OnTheFlyAlphabet> otf(new TA::OnTheFlyAlphabet);
	TA::AlphabetType alpha = otf;
	SetStage("load");
	Loaded A = loadFile(c.at("A").get<std::string>(), alpha);
	Loaded B = loadFile(c.at("B").get<std::string>(), alpha);
	Loaded C = loadFile(c.at("C").get<std::string>(), alpha);
	// pre-register the symbols in a shuffled order in the twin alphabet
	std::shared_ptr<TA::OnTheFlyAlphabet> otf2(new TA::OnTheFlyAlphabet);
	{
		std::vector<TA::StringRank> syms;
		for (auto& kv : otf->GetSymbolDict()) { syms.push_back(kv.first); }
		std::shuffle(syms.begin(), syms.end(), rng);
		auto fwd = otf2->GetSymbolTransl();
		for (auto& s : syms) { (*fwd)(s); }
	}
	std::vector<size_t> pi = randomPerm(A.n, rng), sigma = randomPerm(B.n, rng);
	SetStage("twin");
	TA A2 = makeTwin(A.aut, pi, rng, alpha, otf2);
	TA B2 = makeTwin(B.aut, sigma, rng, alpha, otf2);

	json res;
	res["sizes"] = json::array({countStates(A.aut), countRules(A.aut), countStates(B.aut), countRules(B.aut)});
	// 1. twin invariance + agreement of all selections
	json v = json::array(), v2 = json::array();
	for (int k = 0; k < 8; ++k)
	{
		SetStage(("incl sel " + std::to_string(k)).c_str());
		v.push_back(timed(ms, [&] { return tf(inclSel(A.aut, B.aut, k)); }));
		v2.push_back(timed(ms, [&] { return tf(inclSel(A2, B2, k)); }));
	}
	res["v"] = v;
	res["v_twin"] = v2;
	// 2. emptiness
	SetStage("empty");
	res["empty"] = json::array({timed(ms, [&] { return tf(A.aut.IsLangEmpty()); }), timed(ms, [&] { return tf(A2.IsLangEmpty()); })});
	// 3. sim(pi(A)) = pi(sim(A)): number of mismatching pairs (computed in the child)
	SetStage("sim");
	res["sim_mismatch"] = timed(ms, [&] {
		SimParam sp;
		sp.SetRelation(SimParam::e_sim_relation::TA_DOWNWARD);
		sp.SetNumStates(A.n);
		AutBase::StateDiscontBinaryRelation s1 = A.aut.ComputeSimulation(sp);
		AutBase::StateDiscontBinaryRelation s2 = A2.ComputeSimulation(sp);
		auto used = A.aut.GetUsedStates();
		size_t bad = 0;
		for (size_t q : used)
		{
			for (size_t r : used)
			{
				bool x, y;
				try { x = s1.get(q, r); y = s2.get(pi[q], pi[r]); } catch (const std::exception&) { continue; }
				if (x != y) { ++bad; }
			}
		}
		return std::to_string(bad);
	});
	// 4. sizes after reduction / trimming are the same for the twin
	SetStage("sizes");
	auto sizeOf = [&](const char* what, const TA& x) {
		return timed(ms, [&] {
			std::string w = what;
			TA r = (w == "reduce") ? x.Reduce() : (w == "unreach") ? x.RemoveUnreachableStates() : x.RemoveUselessStates();
			return std::to_string(countStates(r));
		});
	};
	res["red_states"] = json::array({sizeOf("reduce", A.aut), sizeOf("reduce", A2)});
	res["unreach_states"] = json::array({sizeOf("unreach", A.aut), sizeOf("unreach", A2)});
	res["useless_states"] = json::array({sizeOf("useless", A.aut), sizeOf("useless", A2)});
	// 5. laws of inclusion, with one selection chosen by the seed
	int ls = c.value("law_sel", 0);
	res["law_sel"] = ls;
	SetStage("laws");
	res["refl"] = timed(ms, [&] { return tf(inclSel(A.aut, A.aut, ls)); });
	res["union"] = timed(ms, [&] { TA u = TA::Union(A.aut, B.aut); return tf(inclSel(A.aut, u, ls)); });
	res["isect"] = timed(ms, [&] { TA i = TA::Intersection(A.aut, B.aut); return tf(inclSel(i, A.aut, ls)); });
	res["isectbu"] = timed(ms, [&] { TA i = TA::IntersectionBU(A.aut, B.aut); return tf(inclSel(i, A.aut, ls)) + tf(inclSel(i, B.aut, ls)); });
	res["ab"] = timed(ms, [&] { return tf(inclSel(A.aut, B.aut, ls)); });
	res["bc"] = timed(ms, [&] { return tf(inclSel(B.aut, C.aut, ls)); });
	res["ac"] = timed(ms, [&] { return tf(inclSel(A.aut, C.aut, ls)); });
	auto equiv = [&](const char* what) {
		return timed(ms, [&] {
			std::string w = what;
			TA x;
			if (w == "reduce") { x = A.aut.Reduce(); }
			else if (w == "useless") { x = A.aut.RemoveUselessStates(); }
			else if (w == "unreach") { x = A.aut.RemoveUnreachableStates(); }
			else if (w == "reindex")
			{
				AutBase::StateToStateMap m;
				AutBase::StateToStateTranslWeak tr(m, [](const AutBase::StateType& s) { return 3 * s + 1000; });
				x = A.aut.ReindexStates(tr);
			}
			else
			{	// dump and reload
				VATA::Serialization::TimbukSerializer ser;
				VATA::Parsing::TimbukParser parser;
				std::string txt = A.aut.DumpToString(ser);
				x.SetAlphabet(alpha);
				x.LoadFromString(parser, txt);
			}
			return tf(inclSel(A.aut, x, ls)) + tf(inclSel(x, A.aut, ls));
		});
	};
	res["eq_reduce"] = equiv("reduce");
	res["eq_useless"] = equiv("useless");
	res["eq_unreach"] = equiv("unreach");
	res["eq_reindex"] = equiv("reindex");
	res["eq_reload"] = equiv("reload");
	return res;
}
