// C16: the LTS simulation engine
#include "common.hh"
#include <vata/explicit_lts.hh>

// {"op":"lts","n":N,"edges":[[q,a,r]..] (a bag: parallel edges allowed),"part":[[..]..],"rel":[[0/1..]..],"k":K}
// without "part": computeSimulation(k)
VDRIVE_OP(lts)
{
	size_t n = c.at("n").get<size_t>();
	size_t k = c.at("k").get<size_t>();
	VATA::ExplicitLTS lts(n);
	// "twice": the question is asked twice on the same initialised object, the second answer counts (a result must depend
	// on the object's contents only).  (Adding edges with a NEW label after init() and initialising again is not offered:
	// init() sizes the per-state label sets once - a new label afterwards writes past them.)
	// "grow": g - the object is filled with the first g edges, initialised and asked (answer discarded), then the remaining edges
	// are added and it is initialised again.  Only offered when the later edges use labels the first part already has.
	size_t grow = c.value("grow", c.at("edges").size());
	size_t cnt = 0;
	for (const json& e : c.at("edges"))
	{
		if (cnt++ == grow && grow < c.at("edges").size())
		{
			lts.init();
			SetStage("computeSimulation (before growing)");
			lts.computeSimulation(n);
		}
		lts.addTransition(e.at(0).get<size_t>(), e.at(1).get<size_t>(), e.at(2).get<size_t>());
	}
	lts.init();
	if (c.value("twice", false))
	{
		SetStage("computeSimulation (first of two)");
		lts.computeSimulation(n);
		lts.computeSimulation(k);
	}
	VATA::Util::BinaryRelation out;
	if (c.contains("part"))
	{
		std::vector<std::vector<size_t>> part;
		for (const json& b : c["part"]) { part.push_back(b.get<std::vector<size_t>>()); }
		VATA::Util::BinaryRelation rel;
		rel.resize(part.size());
		rel.reset(false);
		for (size_t i = 0; i < part.size(); ++i)
		{
			for (size_t j = 0; j < part.size(); ++j) { rel.set(i, j, c["rel"].at(i).at(j).get<int>() != 0); }
		}
		SetStage("computeSimulation(part,rel,k)");
		out = lts.computeSimulation(part, rel, k);
	}
	else
	{
		SetStage("computeSimulation(k)");
		out = lts.computeSimulation(k);
	}
	SetStage("readback");
	json res;
	json m = json::array();
	for (size_t q = 0; q < out.size(); ++q)
	{
		json row = json::array();
		for (size_t r = 0; r < out.size(); ++r) { row.push_back(out.get(q, r) ? 1 : 0); }
		m.push_back(row);
	}
	res["m"] = m;
	return res;
}

// ---------------------------------------------------------------- step-level binding of the Layer-2 model LtsSim
// {"op":"ltstrace", ...as "lts"...}: runs the engine with the guarded step hook installed; returns the events (Start with the
// input as the engine sees it, one Process per queue element handled) followed by the relation returned (all states).
#include "util/verif_hook.hh"
namespace {
std::vector<std::string>* g_ltsSink = nullptr;
void ltsSink(const std::string& s) { if (g_ltsSink) { g_ltsSink->push_back(s); } }
}

VDRIVE_OP(ltstrace)
{
	size_t n = c.at("n").get<size_t>();
	VATA::ExplicitLTS lts(n);
	for (const json& e : c.at("edges"))
	{
		lts.addTransition(e.at(0).get<size_t>(), e.at(1).get<size_t>(), e.at(2).get<size_t>());
	}
	lts.init();
	std::vector<std::vector<size_t>> part;
	VATA::Util::BinaryRelation rel;
	if (c.contains("part"))
	{
		for (const json& b : c["part"]) { part.push_back(b.get<std::vector<size_t>>()); }
		rel.resize(part.size());
		rel.reset(false);
		for (size_t i = 0; i < part.size(); ++i)
		{
			for (size_t j = 0; j < part.size(); ++j) { rel.set(i, j, c["rel"].at(i).at(j).get<int>() != 0); }
		}
	}
	std::vector<std::string> events;
	g_ltsSink = &events;
	VATA::Util::Verif::Sink() = ltsSink;
	VATA::Util::BinaryRelation out;
	try { out = c.contains("part") ? lts.computeSimulation(part, rel, n) : lts.computeSimulation(n); }
	catch (...) { VATA::Util::Verif::Sink() = nullptr; g_ltsSink = nullptr; throw; }
	VATA::Util::Verif::Sink() = nullptr;
	g_ltsSink = nullptr;
	json evs = json::array();
	for (const std::string& s : events) { evs.push_back(json::parse(s)); }
	json done;
	done["e"] = "Result";
	json pairs = json::array();
	for (size_t q = 0; q < out.size(); ++q)
	{
		for (size_t r = 0; r < out.size(); ++r) { if (out.get(q, r)) { pairs.push_back(json::array({q, r})); } }
	}
	done["pairs"] = pairs;
	evs.push_back(done);
	json res;
	res["events"] = evs;
	return res;
}

// ---------------------------------------------------------------- large-LTS arm for C16
// {"op":"ltsagree","seed":S,"count":N}: seeded random LTSs with 10-45 states and 2-5 labels (enough (label, state) pairs for
// several rows of the engine's counter table), random partition / preorder.  The result is screened HERE for
// consequences of the contract: it contains the identity, stays inside the lifted initial preorder, and IS a simulation.
// (Maximality cannot be screened without an oracle.)  Suspicious cases come back as ordinary "lts" events for TLC.
#include <random>
VDRIVE_OP(ltsagree)
{
	std::mt19937 rng(c.at("seed").get<unsigned>());
	size_t count = c.at("count").get<size_t>();
	json suspicious = json::array();
	for (size_t i = 0; i < count; ++i)
	{
		size_t n = 10 + rng() % 36;
		size_t nl = 2 + rng() % 4;
		size_t ne = n + rng() % (3 * n);
		SetStage(("ltsagree " + std::to_string(i)).c_str());
		json edges = json::array();
		std::vector<std::vector<std::pair<size_t, size_t>>> post(n);
		VATA::ExplicitLTS lts(n);
		for (size_t e = 0; e < ne; ++e)
		{
			size_t q = rng() % n, a = rng() % nl, r = rng() % n;
			edges.push_back(json::array({q, a, r}));
			post[q].push_back(std::make_pair(a, r));
			lts.addTransition(q, a, r);
		}
		lts.init();
		// random partition into m blocks with a random preorder on them
		size_t m = 1 + rng() % 4;
		std::vector<std::vector<size_t>> part(m);
		std::vector<size_t> blockOf(n);
		for (size_t q = 0; q < n; ++q) { size_t b = (q < m) ? q : rng() % m; part[b].push_back(q); blockOf[q] = b; }
		std::vector<std::vector<bool>> pre(m, std::vector<bool>(m, false));
		for (size_t x = 0; x < m; ++x) { for (size_t y = 0; y < m; ++y) { pre[x][y] = (x == y) || (rng() % 100 < 35); } }
		for (size_t k = 0; k < m; ++k) { for (size_t x = 0; x < m; ++x) { for (size_t y = 0; y < m; ++y) { if (pre[x][k] && pre[k][y]) { pre[x][y] = true; } } } }
		VATA::Util::BinaryRelation rel;
		rel.resize(m);
		rel.reset(false);
		for (size_t x = 0; x < m; ++x) { for (size_t y = 0; y < m; ++y) { rel.set(x, y, pre[x][y]); } }
		VATA::Util::BinaryRelation out = lts.computeSimulation(part, rel, n);
		bool bad = (out.size() != n);
		for (size_t q = 0; q < n && !bad; ++q)
		{
			if (!out.get(q, q)) { bad = true; }
			for (size_t r = 0; r < n && !bad; ++r)
			{
				if (!out.get(q, r)) { continue; }
				if (!pre[blockOf[q]][blockOf[r]]) { bad = true; break; }
				for (auto& e : post[q])
				{
					bool answered = false;
					for (auto& f : post[r]) { if (f.first == e.first && out.get(e.second, f.second)) { answered = true; break; } }
					if (!answered) { bad = true; break; }
				}
			}
		}
		if (bad && suspicious.size() < 6)
		{
			json ev;
			ev["op"] = "lts"; ev["n"] = n; ev["k"] = n; ev["edges"] = edges; ev["outcome"] = "ok"; ev["src"] = "ltsagree";
			ev["id"] = json::array({"ltsagree", c.at("seed"), i});
			json jp = json::array(), jr = json::array();
			for (auto& b : part) { jp.push_back(b); }
			for (size_t x = 0; x < m; ++x) { json row = json::array(); for (size_t y = 0; y < m; ++y) { row.push_back(pre[x][y] ? 1 : 0); } jr.push_back(row); }
			ev["part"] = jp; ev["rel"] = jr;
			json mm = json::array();
			for (size_t q = 0; q < out.size(); ++q) { json row = json::array(); for (size_t r = 0; r < out.size(); ++r) { row.push_back(out.get(q, r) ? 1 : 0); } mm.push_back(row); }
			json rr;
			rr["m"] = mm;
			ev["res"] = rr;
			suspicious.push_back(ev);
		}
	}
	json res;
	res["count"] = count;
	res["suspicious"] = suspicious;
	return res;
}
