// C16: the LTS simulation engine
#include "common.hh"
#include <vata/explicit_lts.hh>

// {"op":"lts","n":N,"edges":[[q,a,r]..] (a bag: parallel edges allowed),"part":[[..]..],"rel":[[0/1..]..],"k":K}
// without "part": computeSimulation(k)
VDRIVE_OP(lts)
{
	size_t n = c.at("n").get<size_t>();
	size_t k = c.at("k").get<size_t>();
	VATA::ExplicitLTS lts(n);
	for (const json& e : c.at("edges"))
	{
		lts.addTransition(e.at(0).get<size_t>(), e.at(1).get<size_t>(), e.at(2).get<size_t>());
	}
	lts.init();
	VATA::Util::BinaryRelation out;
	if (c.contains("part"))
	{
		std::vector<std::vector<size_t>> part;
		for (const json& b : c["part"]) { part.push_back(b.get<std::vector<size_t>>()); }
		VATA::Util::BinaryRelation rel;
		rel.resize(part.size());
		rel.reset(false);
		for (size_t i = 0; i < part.size(); ++i)
		{
			for (size_t j = 0; j < part.size(); ++j) { rel.set(i, j, c["rel"].at(i).at(j).get<int>() != 0); }
		}
		SetStage("computeSimulation(part,rel,k)");
		out = lts.computeSimulation(part, rel, k);
	}
	else
	{
		SetStage("computeSimulation(k)");
		out = lts.computeSimulation(k);
	}
	SetStage("readback");
	json res;
	json m = json::array();
	for (size_t q = 0; q < out.size(); ++q)
	{
		json row = json::array();
		for (size_t r = 0; r < out.size(); ++r) { row.push_back(out.get(q, r) ? 1 : 0); }
		m.push_back(row);
	}
	res["m"] = m;
	return res;
}
