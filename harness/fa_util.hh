#ifndef VDRIVE_FA_UTIL_HH
#define VDRIVE_FA_UTIL_HH
#include "common.hh"
#include <vata/explicit_finite_aut.hh>
#include <vata/parsing/timbuk_parser.hh>
#include <vata/serialization/timbuk_serializer.hh>
typedef VATA::ExplicitFiniteAut FA;
FA MakeFA(const json& j);
json ReadFA(const FA& aut);
#endif
