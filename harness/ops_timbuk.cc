// C13: Timbuk text round trips and malformed input.
// {"op":"timbuk","mode":"rt"|"bad","text":...}
// res.parse = {"outcome","desc"}; res.enc.<expl|bu|td|fa> = {"outcome","d1","d2"} where d1 = Parse(Dump(Load(text))) and
// d2 = Parse(Dump(Load(Dump(Load(text))))) under the same state names (StateDict).
// outcome: "ok" | "std:<type>" (a std::exception) | "nonstd" (anything else thrown); crashes / hangs are caught by the supervisor.
#include "common.hh"
#include "fa_util.hh"

#include <vata/bdd_bu_tree_aut.hh>
#include <vata/bdd_td_tree_aut.hh>

using VATA::AutBase;

namespace {

json descToJson(const VATA::Util::AutDescription& d)
{
	json res;
	res["name"] = d.name;
	json syms = json::array();
	for (auto& s : d.symbols) { syms.push_back(json::array({s.first, s.second})); }
	res["syms"] = syms;
	res["states"] = d.states;
	res["fin"] = d.finalStates;
	json tr = json::array();
	for (auto& t : d.transitions) { tr.push_back(json::array({t.second, t.first, t.third})); }
	res["trans"] = tr;
	return res;
}

template <class Aut>
json roundTrip(const std::string& text, const char* stage)
{
	json res;
	try
	{
		VATA::Parsing::TimbukParser parser;
		VATA::Serialization::TimbukSerializer ser;
		SetStage((std::string(stage) + ":load").c_str());
		AutBase::StateDict dict;
		Aut x;
		x.LoadFromString(parser, text, dict);
		SetStage((std::string(stage) + ":dump").c_str());
		std::string t1 = x.DumpToString(ser, dict);
		SetStage((std::string(stage) + ":reparse").c_str());
		res["d1"] = descToJson(parser.ParseString(t1));
		SetStage((std::string(stage) + ":reload").c_str());
		Aut y;
		y.LoadFromString(parser, t1, dict);
		std::string t2 = y.DumpToString(ser, dict);
		res["d2"] = descToJson(parser.ParseString(t2));
		res["outcome"] = "ok";
	}
	catch (const std::exception& e) { res["outcome"] = "std:" + ExcName(e); }
	catch (...) { res["outcome"] = "nonstd"; }
	return res;
}

} // namespace

VDRIVE_OP(timbuk)
{
	std::string text = c.at("text").get<std::string>();
	json res;
	{
		json p;
		SetStage("parse");
		try
		{
			VATA::Parsing::TimbukParser parser;
			p["desc"] = descToJson(parser.ParseString(text));
			p["outcome"] = "ok";
		}
		catch (const std::exception& e) { p["outcome"] = "std:" + ExcName(e); }
		catch (...) { p["outcome"] = "nonstd"; }
		res["parse"] = p;
	}
	json enc;
	enc["expl"] = roundTrip<TA>(text, "expl");
	enc["bu"] = roundTrip<VATA::BDDBottomUpTreeAut>(text, "bu");
	enc["td"] = roundTrip<VATA::BDDTopDownTreeAut>(text, "td");
	enc["fa"] = roundTrip<FA>(text, "fa");
	res["enc"] = enc;
	return res;
}
