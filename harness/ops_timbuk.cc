// C13: Timbuk text round trips and malformed input.
// {"op":"timbuk","mode":"rt"|"bad","text":...}
// res.parse = {"outcome","desc"}; res.enc.<expl|bu|td|fa> = {"outcome","d1","d2"} where d1 = Parse(Dump(Load(text))) and
// d2 = Parse(Dump(Load(Dump(Load(text))))) under the same state names (StateDict).
// outcome: "ok" | "std:<type>" (a std::exception) | "nonstd" (anything else thrown); crashes / hangs are caught by the supervisor.
#include "common.hh"
#include "fa_util.hh"

#include <vata/bdd_bu_tree_aut.hh>
#include <vata/bdd_td_tree_aut.hh>

using VATA::AutBase;

namespace {

json descToJson(const VATA::Util::AutDescription& d)
{
	json res;
	res["name"] = d.name;
	json syms = json::array();
	for (auto& s : d.symbols) { syms.push_back(json::array({s.first, s.second})); }
	res["syms"] = syms;
	res["states"] = d.states;
	res["fin"] = d.finalStates;
	json tr = json::array();
	for (auto& t : d.transitions) { tr.push_back(json::array({t.second, t.first, t.third})); }
	res["trans"] = tr;
	return res;
}

// hook for the variant that loads into a forked alphabet; the generic version does nothing
template <class Aut> void prepareAlphabet(Aut&, bool) { }
template <class Aut> void shareAlphabet(Aut&, Aut&) { }
template <> void shareAlphabet<TA>(TA& y, TA& x) { y.SetAlphabet(x.GetAlphabet()); }
TA::AlphabetType g_forked;
template <> void prepareAlphabet<TA>(TA& aut, bool forked)
{
	if (!forked) { return; }
	if (!g_forked)
	{	// an alphabet that already holds a few symbols (through a load), then COPIED: the copy is what the automata use
		std::shared_ptr<TA::OnTheFlyAlphabet> orig(new TA::OnTheFlyAlphabet);
		TA seed;
		TA::AlphabetType origPtr(orig);
		seed.SetAlphabet(origPtr);
		VATA::Parsing::TimbukParser parser;
		AutBase::StateDict dict;
		seed.LoadFromString(parser, "Ops zz0:0 zz2:2 zz1:1\nAutomaton S\nStates s\nFinal States s\nTransitions\nzz0 -> s\nzz2(s,s) -> s\nzz1(s) -> s\n", dict);
		g_forked = TA::AlphabetType(new TA::OnTheFlyAlphabet(*orig));
	}
	// every case forks again from the current state of the forked alphabet (a copy of a copy that has grown meanwhile)
	g_forked = TA::AlphabetType(new TA::OnTheFlyAlphabet(*std::dynamic_pointer_cast<TA::OnTheFlyAlphabet>(g_forked)));
	aut.SetAlphabet(g_forked);
}

// "preuse": ONE parser and ONE serialiser object per worker process are used again and again for all texts (malformed ones
// included) instead of fresh objects per call - whatever an object remembers from an earlier text must not matter
VATA::Parsing::TimbukParser g_sharedParser;
VATA::Serialization::TimbukSerializer g_sharedSer;
bool g_preuse = false;

template <class Aut>
json roundTrip(const std::string& text, const char* stage, bool forked = false)
{
	json res;
	try
	{
		VATA::Parsing::TimbukParser freshParser;
		VATA::Serialization::TimbukSerializer freshSer;
		VATA::Parsing::TimbukParser& parser = g_preuse ? g_sharedParser : freshParser;
		VATA::Serialization::TimbukSerializer& ser = g_preuse ? g_sharedSer : freshSer;
		SetStage((std::string(stage) + ":load").c_str());
		AutBase::StateDict dict;
		Aut x;
		prepareAlphabet(x, forked);
		x.LoadFromString(parser, text, dict);
		SetStage((std::string(stage) + ":dump").c_str());
		std::string t1 = x.DumpToString(ser, dict);
		SetStage((std::string(stage) + ":reparse").c_str());
		res["d1"] = descToJson(parser.ParseString(t1));
		SetStage((std::string(stage) + ":reload").c_str());
		Aut y;
		if (forked) { shareAlphabet(y, x); }
		y.LoadFromString(parser, t1, dict);
		std::string t2 = y.DumpToString(ser, dict);
		res["d2"] = descToJson(parser.ParseString(t2));
		res["outcome"] = "ok";
	}
	catch (const std::exception& e) { res["outcome"] = "std:" + ExcName(e); }
	catch (...) { res["outcome"] = "nonstd"; }
	return res;
}

} // namespace

VDRIVE_OP(timbuk)
{
	std::string text = c.at("text").get<std::string>();
	g_preuse = c.value("preuse", false);
	json res;
	{
		json p;
		SetStage("parse");
		try
		{
			VATA::Parsing::TimbukParser freshParser;
			VATA::Parsing::TimbukParser& parser = g_preuse ? g_sharedParser : freshParser;
			VATA::Util::AutDescription d = parser.ParseString(text);
			p["desc"] = descToJson(d);
			p["outcome"] = "ok";
			if (c.at("mode") == "rt")
			{	// the serialiser on the parsed description, parsed again
				json rs;
				SetStage("serialise+parse");
				try
				{
					VATA::Serialization::TimbukSerializer freshSer;
					VATA::Serialization::TimbukSerializer& ser = g_preuse ? g_sharedSer : freshSer;
					rs["desc"] = descToJson(parser.ParseString(ser.Serialize(d)));
					rs["outcome"] = "ok";
				}
				catch (const std::exception& e) { rs["outcome"] = "std:" + ExcName(e); }
				catch (...) { rs["outcome"] = "nonstd"; }
				p["reser"] = rs;
			}
		}
		catch (const std::exception& e) { p["outcome"] = "std:" + ExcName(e); }
		catch (...) { p["outcome"] = "nonstd"; }
		res["parse"] = p;
	}
	json enc;
	enc["expl"] = roundTrip<TA>(text, "expl");
	enc["bu"] = roundTrip<VATA::BDDBottomUpTreeAut>(text, "bu");
	enc["td"] = roundTrip<VATA::BDDTopDownTreeAut>(text, "td");
	enc["fa"] = roundTrip<FA>(text, "fa");
	if (c.value("forked", false)) { enc["explf"] = roundTrip<TA>(text, "explf", true); }
	res["enc"] = enc;
	return res;
}
