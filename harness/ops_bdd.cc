// BDD-encoded (semi-symbolic) tree automata: C07 (inclusion) and C08 (load / union / intersection / trimming / BU->TD, histories).
// Automata are presented as Timbuk text (what a user feeds the library), loaded with a translator that maps the
// state name "q<N>" to N, and read back with DumpToString + TimbukParser (state names are then the numbers).
#include "common.hh"

#include <vata/bdd_bu_tree_aut.hh>
#include <vata/bdd_td_tree_aut.hh>
#include <vata/incl_param.hh>
#include <vata/sim_param.hh>
#include <vata/parsing/timbuk_parser.hh>
#include <vata/serialization/timbuk_serializer.hh>

using VATA::AutBase;
using VATA::InclParam;
using VATA::SimParam;
typedef VATA::BDDBottomUpTreeAut BU;
typedef VATA::BDDTopDownTreeAut TD;

std::string TimbukText(const json& a)
{
	std::map<std::string, size_t> syms;
	std::set<size_t> states;
	for (const json& r : a.at("rules"))
	{
		syms[r.at(0).get<std::string>() ] = r.at(1).size();
		for (const json& k : r.at(1)) { states.insert(k.get<size_t>()); }
		states.insert(r.at(2).get<size_t>());
	}
	for (const json& q : a.at("fin")) { states.insert(q.get<size_t>()); }
	std::string s = "Ops";
	for (auto& kv : syms) { s += " " + kv.first + ":" + std::to_string(kv.second); }
	s += "\n\nAutomaton A\nStates";
	for (size_t q : states) { s += " q" + std::to_string(q); }
	s += "\nFinal States";
	for (const json& q : a.at("fin")) { s += " q" + std::to_string(q.get<size_t>()); }
	s += "\nTransitions\n";
	for (const json& r : a.at("rules"))
	{
		s += r.at(0).get<std::string>();
		if (r.at(1).size() > 0)
		{
			s += "(";
			for (size_t i = 0; i < r.at(1).size(); ++i) { s += (i ? ", q" : "q") + std::to_string(r.at(1).at(i).get<size_t>()); }
			s += ")";
		}
		s += " -> q" + std::to_string(r.at(2).get<size_t>()) + "\n";
	}
	return s;
}

namespace {

template <class Aut>
void loadBdd(Aut& aut, const json& a)
{
	VATA::Parsing::TimbukParser parser;
	AutBase::StateDict dict;
	AutBase::StringToStateTranslWeak transl(dict,
		[](const std::string& s) { return static_cast<AutBase::StateType>(std::stoul(s.substr(1))); });
	aut.LoadFromString(parser, TimbukText(a), transl);
}

template <class Aut>
json readBdd(const Aut& aut)
{
	VATA::Serialization::TimbukSerializer ser;
	std::string txt = aut.DumpToString(ser);
	VATA::Parsing::TimbukParser parser;
	VATA::Util::AutDescription desc = parser.ParseString(txt);
	json res;
	std::set<size_t> fin;
	for (auto& q : desc.finalStates) { fin.insert(std::stoul(q)); }
	json rules = json::array();
	for (auto& t : desc.transitions)
	{
		json kids = json::array();
		for (auto& k : t.first) { kids.push_back(std::stoul(k)); }
		rules.push_back(json::array({t.second, kids, std::stoul(t.third)}));
	}
	res["fin"] = fin;
	res["rules"] = rules;
	return res;
}

InclParam mkParam(bool down, bool rec, bool opt, bool sim)
{
	InclParam ip;
	ip.SetAlgorithm(InclParam::e_algorithm::antichains);
	ip.SetDirection(down ? InclParam::e_direction::downward : InclParam::e_direction::upward);
	ip.SetUseRecursion(rec);
	ip.SetUseDownwardCacheImpl(opt);
	ip.SetUseSimulation(sim);
	return ip;
}

template <class F>
json guarded(const char* stage, F f)
{
	SetStage(stage);
	try { return f() ? "T" : "F"; }
	catch (const VATA::NotImplementedException& e) { return "N"; }        // reported as not implemented
	catch (const std::exception& e) { return "X:" + ExcName(e); }
}

} // namespace

// {"op":"bddincl","A","B"} -> verdict per selection: "T"/"F", "N" (NotImplementedException), "X:<type>" (other exception)
template <class Aut>
Aut mkSecond(const Aut& a, const json& jb, const std::string& bmode)
{
	if (bmode == "copy" || bmode == "alias") { return Aut(a); }
	Aut b;
	loadBdd(b, jb);
	return b;
}

VDRIVE_OP(bddincl)
{
	const json& ja = c.at("A");
	const json& jb = c.at("B");
	json v = json::object();
	// "bmode": "alias" = the same object as both operands, "copy" = a copy of A (sharing its table) as second operand (value B = A)
	std::string bmode = c.value("bmode", "");
	// bottom-up encoding
	v["bu_up"] = guarded("bu_up", [&] { BU a; loadBdd(a, ja); BU bc = mkSecond(a, jb, bmode); const BU& b = (bmode == "alias") ? a : bc; return BU::CheckInclusion(a, b, mkParam(false, false, false, false)); });
	v["bu_dr_sim"] = guarded("bu_dr_sim", [&] { BU a; loadBdd(a, ja); BU bc = mkSecond(a, jb, bmode); const BU& b = (bmode == "alias") ? a : bc; return BU::CheckInclusion(a, b, mkParam(true, true, false, true)); });
	// the same selection with the simulation computed by the caller and ATTACHED to the parameters (the recipe of cli/operations.hh
	// and of the unit tests: sanitise, disjoint union, downward simulation over the number of states, SetSimulation)
	v["bu_dr_sim_att"] = guarded("bu_dr_sim_att", [&] {
		BU a; loadBdd(a, ja); BU b = mkSecond(a, jb, bmode == "alias" ? std::string("copy") : bmode);
		AutBase::StateType states = AutBase::SanitizeAutsForInclusion(a, b);
		BU u = BU::UnionDisjointStates(a, b);
		SimParam sp;
		sp.SetRelation(SimParam::e_sim_relation::TA_DOWNWARD);
		sp.SetNumStates(states);
		AutBase::StateDiscontBinaryRelation sim = u.ComputeSimulation(sp);
		InclParam ip = mkParam(true, true, false, true);
		ip.SetSimulation(&sim);
		return BU::CheckInclusion(a, b, ip);
	});
	// top-down encoding
	v["td_dr"] = guarded("td_dr", [&] { TD a; loadBdd(a, ja); TD bc = mkSecond(a, jb, bmode); const TD& b = (bmode == "alias") ? a : bc; return TD::CheckInclusion(a, b, mkParam(true, true, false, false)); });
	v["td_dro"] = guarded("td_dro", [&] { TD a; loadBdd(a, ja); TD bc = mkSecond(a, jb, bmode); const TD& b = (bmode == "alias") ? a : bc; return TD::CheckInclusion(a, b, mkParam(true, true, true, false)); });
	// top-down with simulation: the relation is computed the way bdd_bu_tree_aut_incl.cc does it
	for (int opt = 0; opt < 2; ++opt)
	{
		v[opt ? "td_dro_sim" : "td_dr_sim"] = guarded(opt ? "td_dro_sim" : "td_dr_sim", [&] {
			BU a; loadBdd(a, ja); BU b = mkSecond(a, jb, bmode == "alias" ? std::string("copy") : bmode);
			AutBase::StateType states = AutBase::SanitizeAutsForInclusion(a, b);
			BU u = BU::UnionDisjointStates(a, b);
			SimParam sp;
			sp.SetRelation(SimParam::e_sim_relation::TA_DOWNWARD);
			sp.SetNumStates(states);
			AutBase::StateDiscontBinaryRelation sim = u.ComputeSimulation(sp);
			TD ta = a.GetTopDownAut();
			TD tb = b.GetTopDownAut();
			InclParam ip = mkParam(true, true, opt == 1, true);
			ip.SetSimulation(&sim);
			return TD::CheckInclusion(ta, tb, ip);
		});
	}
	// selections that are not implemented must say so
	v["bu_dn"] = guarded("bu_dn", [&] { BU a; loadBdd(a, ja); BU bc = mkSecond(a, jb, bmode); const BU& b = (bmode == "alias") ? a : bc; return BU::CheckInclusion(a, b, mkParam(true, false, false, false)); });
	v["bu_dr"] = guarded("bu_dr", [&] { BU a; loadBdd(a, ja); BU bc = mkSecond(a, jb, bmode); const BU& b = (bmode == "alias") ? a : bc; return BU::CheckInclusion(a, b, mkParam(true, true, false, false)); });
	v["td_up"] = guarded("td_up", [&] { TD a; loadBdd(a, ja); TD bc = mkSecond(a, jb, bmode); const TD& b = (bmode == "alias") ? a : bc; return TD::CheckInclusion(a, b, mkParam(false, false, false, false)); });
	v["td_dn"] = guarded("td_dn", [&] { TD a; loadBdd(a, ja); TD bc = mkSecond(a, jb, bmode); const TD& b = (bmode == "alias") ? a : bc; return TD::CheckInclusion(a, b, mkParam(true, false, false, false)); });
	json res;
	res["v"] = v;
	return res;
}

// ----------------------------------------------------------------------------- C08 histories
// {"op":"bddhist","enc":"bu"|"td","steps":[[name,args..]..]}; handles b0..b3 of the chosen encoding (plus t0..t3 top-down
// results of GetTopDownAut for enc "bu"); after every step every live automaton is dumped.
namespace {

const int NH = 4;

template <class Aut>
struct BddHist
{
	std::unique_ptr<Aut> h[NH];
	std::unique_ptr<TD> t[NH];       // only used with Aut = BU
};

template <class Aut>
void toTopDown(BddHist<Aut>&, int, int) { throw std::runtime_error("vdrive: totd needs the bottom-up encoding"); }
template <>
void toTopDown<BU>(BddHist<BU>& H, int i, int j) { H.t[i].reset(new TD(H.h[j]->GetTopDownAut())); }

// RemoveUnreachableStates with the optional out-container (bottom-up encoding only; the top-down one has no such overload)
template <class Aut>
Aut unreachWithSet(const Aut& a) { return a.RemoveUnreachableStates(); }
template <>
BU unreachWithSet<BU>(const BU& a) { AutBase::StateHT reach; return a.RemoveUnreachableStates(&reach); }

template <class Aut>
json runBddHist(const json& c)
{
	BddHist<Aut> H;
	json out = json::array();
	size_t stepNo = 0;
	for (const json& st : c.at("steps"))
	{
		std::string op = st.at(0).get<std::string>();
		SetStage(("bdd step " + std::to_string(stepNo++) + " " + op).c_str());
		int i = st.at(1).get<int>();
		json ev;
		ev["op"] = op;
		ev["i"] = i;
		if (op == "load") { ev["aut"] = st.at(2); H.h[i].reset(new Aut()); loadBdd(*H.h[i], st.at(2)); }
		else if (op == "copy") { int j = st.at(2).get<int>(); ev["j"] = j; H.h[i].reset(new Aut(*H.h[j])); }
		else if (op == "assign") { int j = st.at(2).get<int>(); ev["j"] = j; *H.h[i] = *H.h[j]; }
		else if (op == "destroy") { H.h[i].reset(); }
		else if (op == "final") { size_t q = st.at(2).get<size_t>(); ev["q"] = q; H.h[i]->SetStateFinal(q); }
		else if (op == "tdestroy") { H.t[i].reset(); }
		// an optional trailing `true` selects the overload WITH the optional out-arguments (translation maps / reachable set)
		else if (op == "union")
		{
			int j = st.at(2).get<int>(), k = st.at(3).get<int>(); ev["j"] = j; ev["k"] = k;
			if (st.size() > 4 && st.at(4).get<bool>()) { AutBase::StateToStateMap ml, mr; H.h[i].reset(new Aut(Aut::Union(*H.h[j], *H.h[k], &ml, &mr))); }
			else { H.h[i].reset(new Aut(Aut::Union(*H.h[j], *H.h[k]))); }
		}
		else if (op == "uniondisj") { int j = st.at(2).get<int>(), k = st.at(3).get<int>(); ev["j"] = j; ev["k"] = k; H.h[i].reset(new Aut(Aut::UnionDisjointStates(*H.h[j], *H.h[k]))); }
		else if (op == "isect")
		{
			int j = st.at(2).get<int>(), k = st.at(3).get<int>(); ev["j"] = j; ev["k"] = k;
			if (st.size() > 4 && st.at(4).get<bool>()) { AutBase::ProductTranslMap pm; H.h[i].reset(new Aut(Aut::Intersection(*H.h[j], *H.h[k], &pm))); }
			else { H.h[i].reset(new Aut(Aut::Intersection(*H.h[j], *H.h[k]))); }
		}
		else if (op == "unreach")
		{
			int j = st.at(2).get<int>(); ev["j"] = j;
			if (st.size() > 3 && st.at(3).get<bool>()) { H.h[i].reset(new Aut(unreachWithSet(*H.h[j]))); }
			else { H.h[i].reset(new Aut(H.h[j]->RemoveUnreachableStates())); }
		}
		else if (op == "useless") { int j = st.at(2).get<int>(); ev["j"] = j; H.h[i].reset(new Aut(H.h[j]->RemoveUselessStates())); }
		else if (op == "totd") { int j = st.at(2).get<int>(); ev["j"] = j; toTopDown(H, i, j); }
		else { throw std::runtime_error("vdrive: bad bdd step"); }
		json live = json::object();
		for (int x = 0; x < NH; ++x)
		{
			if (H.h[x]) { live["b" + std::to_string(x)] = readBdd(*H.h[x]); }
			if (H.t[x]) { live["t" + std::to_string(x)] = readBdd(*H.t[x]); }
		}
		ev["live"] = live;
		out.push_back(ev);
	}
	json res;
	res["steps"] = out;
	return res;
}

} // namespace

VDRIVE_OP(bddhist)
{
	return (c.value("enc", "bu") == "td") ? runBddHist<TD>(c) : runBddHist<BU>(c);
}


// ----------------------------------------------------------------------------- agreement arm for C08
// {"op":"bddagree","seed":S,"count":N}: random pairs generated here; for both encodings the results of Union, Intersection,
// RemoveUselessStates, RemoveUnreachableStates (and GetTopDownAut) are dumped, re-loaded into the EXPLICIT encoding and
// compared for language equality (library's own inclusion, cross-checked elsewhere) with the explicit result of the same
// operation.  Only disagreeing cases come back, as bddhist histories that TLC then judges with TraceBdd.
#include <random>
namespace {

json randTreeAut(std::mt19937& rng, size_t nq, size_t nrules, size_t base)
{
	static const std::pair<const char*, size_t> AL[4] = {{"a", 0}, {"b", 0}, {"g", 1}, {"f", 2}};
	json rules = json::array();
	for (size_t i = 0; i < nrules; ++i)
	{
		const auto& s = AL[rng() % 4];
		json kids = json::array();
		for (size_t k = 0; k < s.second; ++k) { kids.push_back(base + rng() % nq); }
		json r = json::array({s.first, kids, base + rng() % nq});
		bool dup = false;
		for (const json& x : rules) { if (x == r) { dup = true; } }
		if (!dup) { rules.push_back(r); }
	}
	json fin = json::array();
	for (size_t q = 0; q < nq; ++q) { if (rng() % 100 < 35) { fin.push_back(base + q); } }
	if (fin.empty()) { fin.push_back(base + rng() % nq); }
	json a;
	a["fin"] = fin; a["rules"] = rules;
	return a;
}

TA toExplicit(const json& j, Alpha& alpha) { return MakeTA(j, alpha); }
bool langEq(const TA& x, const TA& y) { return TA::CheckInclusion(x, y) && TA::CheckInclusion(y, x); }

template <class Aut>
void agreeOne(const json& ja, const json& jb, const char* enc, json& suspicious)
{
	Aut a, b;
	loadBdd(a, ja);
	loadBdd(b, jb);
	Alpha alpha;
	TA ea = toExplicit(ja, alpha), eb = toExplicit(jb, alpha);
	struct Item { const char* op; json dump; TA expl; };
	std::vector<std::pair<std::string, bool>> results;
	auto check = [&](const char* op, const json& dump, const TA& expl) {
		TA back = toExplicit(dump, alpha);
		if (!langEq(back, expl) && suspicious.size() < 30)
		{
			json c;
			c["op"] = "bddhist"; c["enc"] = enc; c["kind"] = "bdd"; c["src"] = "bdd-agreement-arm";
			json steps = json::array();
			steps.push_back(json::array({"load", 0, ja}));
			steps.push_back(json::array({"load", 1, jb}));
			std::string o = op;
			if (o == "union" || o == "isect") { steps.push_back(json::array({o, 2, 0, 1})); }
			else { steps.push_back(json::array({o, 2, 0})); }
			c["steps"] = steps;
			suspicious.push_back(c);
		}
	};
	check("union", readBdd(Aut::Union(a, b)), TA::Union(ea, eb));
	check("isect", readBdd(Aut::Intersection(a, b)), TA::Intersection(ea, eb));
	check("useless", readBdd(a.RemoveUselessStates()), ea);
	check("unreach", readBdd(a.RemoveUnreachableStates()), ea);
}

} // namespace

VDRIVE_OP(bddagree)
{
	std::mt19937 rng(c.at("seed").get<unsigned>());
	size_t count = c.at("count").get<size_t>();
	json suspicious = json::array();
	for (size_t i = 0; i < count; ++i)
	{
		json ja = randTreeAut(rng, 1 + rng() % 4, 2 + rng() % 6, 0);
		json jb = randTreeAut(rng, 1 + rng() % 4, 2 + rng() % 7, (rng() % 2) ? 0 : 10);
		SetStage(("bddagree pair " + std::to_string(i)).c_str());
		agreeOne<BU>(ja, jb, "bu", suspicious);
		agreeOne<TD>(ja, jb, "td", suspicious);
	}
	json res;
	res["count"] = count;
	res["suspicious"] = suspicious;
	return res;
}

// ---------------------------------------------------------------- agreement arm for C07
// {"op":"bddinclagree","seed":S,"count":N}: seeded random pairs (half of them nearly included), every implemented BDD selection
// (incl. the attached-simulation recipe); pairs on which the verdicts are not all equal come back as ordinary "bddincl" cases
// (inputs only - the check re-runs them through the bddincl op and TLC judges the verdicts).
VDRIVE_OP(bddinclagree)
{
	std::mt19937 rng(c.at("seed").get<unsigned>());
	size_t count = c.at("count").get<size_t>();
	json disagree = json::array();
	size_t noninc = 0;
	for (size_t i = 0; i < count; ++i)
	{
		json ja = randTreeAut(rng, 2 + rng() % 4, 3 + rng() % 7, 0);
		json jb = randTreeAut(rng, 2 + rng() % 4, 3 + rng() % 8, (rng() % 2) ? 0 : 10);
		if (rng() % 2)
		{	// nearly included: B = A shifted, a rule dropped sometimes, a few rules added
			json rules = json::array();
			size_t drop = ja["rules"].empty() ? 0 : rng() % ja["rules"].size();
			bool doDrop = (rng() % 100 < 35);
			for (size_t k = 0; k < ja["rules"].size(); ++k)
			{
				if (doDrop && k == drop) { continue; }
				json r = ja["rules"][k];
				for (auto& kid : r[1]) { kid = kid.get<size_t>() + 20; }
				r[2] = r[2].get<size_t>() + 20;
				rules.push_back(r);
			}
			json extra = randTreeAut(rng, 3, rng() % 4, 20);
			for (auto& r : extra["rules"]) { rules.push_back(r); }
			json fin = json::array();
			for (auto& q : ja["fin"]) { fin.push_back(q.get<size_t>() + 20); }
			jb = json::object();
			jb["fin"] = fin; jb["rules"] = rules;
		}
		SetStage(("bddinclagree pair " + std::to_string(i)).c_str());
		std::vector<std::string> v;
		auto run = [&v](const std::function<bool()>& f) {
			try { v.push_back(f() ? "T" : "F"); }
			catch (const VATA::NotImplementedException&) { v.push_back("N"); }
			catch (const std::exception& e) { v.push_back("X:" + ExcName(e)); }
		};
		BU a0, b0;
		loadBdd(a0, ja); loadBdd(b0, jb);
		run([&] { return BU::CheckInclusion(a0, b0, mkParam(false, false, false, false)); });
		run([&] { return BU::CheckInclusion(a0, b0, mkParam(true, true, false, true)); });
		run([&] {
			BU a(a0), b(b0);
			AutBase::StateType states = AutBase::SanitizeAutsForInclusion(a, b);
			BU u = BU::UnionDisjointStates(a, b);
			SimParam sp;
			sp.SetRelation(SimParam::e_sim_relation::TA_DOWNWARD);
			sp.SetNumStates(states);
			AutBase::StateDiscontBinaryRelation sim = u.ComputeSimulation(sp);
			InclParam ip = mkParam(true, true, false, true);
			ip.SetSimulation(&sim);
			return BU::CheckInclusion(a, b, ip);
		});
		TD ta, tb;
		loadBdd(ta, ja); loadBdd(tb, jb);
		run([&] { return TD::CheckInclusion(ta, tb, mkParam(true, true, false, false)); });
		run([&] { return TD::CheckInclusion(ta, tb, mkParam(true, true, true, false)); });
		bool same = true;
		for (auto& x : v) { if (x != v[0] || (x != "T" && x != "F")) { same = false; } }
		if (v[0] == "F") { ++noninc; }
		if (!same && disagree.size() < 25)
		{
			json ev;
			ev["op"] = "bddincl"; ev["A"] = ja; ev["B"] = jb; ev["src"] = "bdd-incl-agreement-arm";
			ev["id"] = json::array({"bddinclagree", c.at("seed"), i});
			ev["seen"] = v;
			disagree.push_back(ev);
		}
	}
	json res;
	res["count"] = count;
	res["nonincluded"] = noninc;
	res["disagree"] = disagree;
	return res;
}
