#include "common.hh"

#include <cxxabi.h>
#include <typeinfo>

bool g_relCopy = false;
bool g_buildViaLoad = false;
static std::unique_ptr<TA> g_keep;
void ResetCaseFlags() { g_relCopy = false; g_buildViaLoad = false; g_keep.reset(); }
void ShareIfAsked(const TA& a, const json& c) { if (c.value("amode", "") == "copy") { g_keep.reset(new TA(a)); } }
void NoteKeep(json& res, const Alpha& alpha) { if (g_keep) { res["keep_after"] = ReadTA(*g_keep, alpha); } }

Alpha::Alpha() :
	otf(new TA::OnTheFlyAlphabet),
	ptr(otf),
	fwd(),
	bwd()
{ }

TA::SymbolType Alpha::Sym(const std::string& name, size_t rank)
{
	auto key = std::make_pair(name, rank);
	auto it = fwd.find(key);
	if (it != fwd.end()) { return it->second; }
	auto transl = otf->GetSymbolTransl();
	TA::SymbolType s = (*transl)(TA::StringRank(name, rank));
	fwd[key] = s;
	bwd[s] = key;
	return s;
}

void Alpha::RegisterAll(const json& syms)
{
	for (const json& s : syms) { this->Sym(s.at(0).get<std::string>(), s.at(1).get<size_t>()); }
}

void Alpha::Refresh()
{
	for (auto& kv : otf->GetSymbolDict())
	{
		auto key = std::make_pair(kv.first.symbolStr, kv.first.rank);
		fwd[key] = kv.second;
		bwd[kv.second] = key;
	}
}

json Alpha::Name(TA::SymbolType s) const
{
	auto it = bwd.find(s);
	if (it == bwd.end()) { return "#" + std::to_string(s); }
	return it->second.first;
}

// "huge" presentation: a state number >= 10^9 in a case stands for the library state 2^33 + (q - 10^9) (legal, beyond 32 bits;
// TLC's integers are 32-bit, so the specification side keeps the small stand-in); read back the same way
static const size_t HUGE_JSON = 1000000000ULL;
static const size_t HUGE_LIB = 1ULL << 33;
// "top" presentation: the case numbers 1 999 999 999 - k (k < 1000) stand for the library states SIZE_MAX - k (the largest legal
// state numbers: StateType is uintptr_t and no interface reserves a value)
static const size_t TOP_JSON = 1999999999ULL;
static const size_t TOP_LIB = static_cast<size_t>(-1);
size_t StIn(size_t q)
{
	if (q <= TOP_JSON && TOP_JSON - q < 1000) { return TOP_LIB - (TOP_JSON - q); }
	return q >= HUGE_JSON ? q - HUGE_JSON + HUGE_LIB : q;
}
size_t StOut(size_t q)
{
	if (TOP_LIB - q < 1000) { return TOP_JSON - (TOP_LIB - q); }
	if (q >= HUGE_LIB && q - HUGE_LIB < HUGE_JSON - 1000) { return q - HUGE_LIB + HUGE_JSON; }
	if (q >= HUGE_JSON) { return 2000000000ULL + q % 1000000; }      // a number no case uses (keeps the trace within 32 bits)
	return q;
}

void BuildTA(TA& aut, const json& j, Alpha& alpha)
{
	aut.SetAlphabet(alpha.ptr);
	if (g_buildViaLoad)
	{	// "build": "load" - every piece is ADDED to the object through LoadFromAutDesc (final states first, then the rules,
		// as the loader does it), with a state translator that maps the name q<n> to the state n
		VATA::Util::AutDescription desc;
		desc.name = "piece";
		if (j.contains("rules"))
		{
			for (const json& r : j.at("rules"))
			{
				VATA::Util::AutDescription::StateTuple kids;
				for (const json& k : r.at(1)) { kids.push_back("q" + std::to_string(k.get<size_t>())); }
				desc.symbols.insert(std::make_pair(r.at(0).get<std::string>(), static_cast<int>(kids.size())));
				desc.transitions.insert(VATA::Util::AutDescription::Transition(kids, r.at(0).get<std::string>(),
					"q" + std::to_string(r.at(2).get<size_t>())));
			}
		}
		if (j.contains("fin"))
		{
			for (const json& q : j.at("fin")) { desc.finalStates.insert("q" + std::to_string(q.get<size_t>())); }
		}
		// the dictionary already knows every name of the piece (q<n> is the state n), so the loader invents no number
		VATA::AutBase::StateDict dict;
		auto know = [&dict](const std::string& name) {
			if (dict.FindFwd(name) == dict.EndFwd()) { dict.insert(std::make_pair(name, StIn(static_cast<size_t>(std::stoull(name.substr(1)))))); } };
		for (const auto& t : desc.transitions) { know(t.third); for (const auto& k : t.first) { know(k); } }
		for (const auto& q : desc.finalStates) { know(q); }
		aut.LoadFromAutDesc(desc, dict);
		alpha.Refresh();
		return;
	}
	if (j.contains("rules"))
	{
		for (const json& r : j.at("rules"))
		{
			TA::StateTuple kids;
			for (const json& k : r.at(1)) { kids.push_back(StIn(k.get<size_t>())); }
			aut.AddTransition(kids, alpha.Sym(r.at(0).get<std::string>(), kids.size()), StIn(r.at(2).get<size_t>()));
		}
	}
	if (j.contains("fin"))
	{
		for (const json& q : j.at("fin")) { aut.SetStateFinal(StIn(q.get<size_t>())); }
	}
}

TA MakeTA(const json& j, Alpha& alpha)
{
	TA aut;
	BuildTA(aut, j, alpha);
	return aut;
}

json ReadTA(const TA& aut, const Alpha& alpha)
{
	json res;
	std::vector<size_t> fin;
	for (size_t q : aut.GetFinalStates()) { fin.push_back(StOut(q)); }
	std::sort(fin.begin(), fin.end());
	res["fin"] = fin;
	json rules = json::array();
	for (const TA::Transition& t : aut)
	{
		json kids = json::array();
		for (size_t k : t.GetChildren()) { kids.push_back(StOut(k)); }
		rules.push_back(json::array({alpha.Name(t.GetSymbol()), kids, StOut(t.GetParent())}));
	}
	res["rules"] = rules;
	return res;
}

json StateMapToJson(const VATA::AutBase::StateToStateMap& m)
{
	std::vector<std::pair<size_t, size_t>> v;
	for (auto& p : m) { v.push_back(std::make_pair(StOut(p.first), StOut(p.second))); }
	std::sort(v.begin(), v.end());
	json res = json::array();
	for (auto& p : v) { res.push_back(json::array({p.first, p.second})); }
	return res;
}

std::string ExcName(const std::exception& e)
{
	int status = 0;
	char* dem = abi::__cxa_demangle(typeid(e).name(), nullptr, nullptr, &status);
	std::string res = (status == 0 && dem) ? dem : typeid(e).name();
	free(dem);
	return res;
}
