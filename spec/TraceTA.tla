------------------------------ MODULE TraceTA ------------------------------
(***************************************************************************)
(* Layer 1 contracts of the pure operations on explicit tree automata and  *)
(* the trace specification that judges recorded events against them        *)
(* (implementation -> spec direction).  Every line of the NDJSON trace     *)
(* TRACE is one call made by the driver on the real library: operands as   *)
(* presented, outcome, results read back through the public API.  Events   *)
(* are independent, so every line is its own initial state and the         *)
(* contract is a state invariant; TLC is run with -continue and the        *)
(* failing lines are printed as <<"VFAIL", line, reasons>>.                *)
(***************************************************************************)
EXTENDS TA, TLC, Json, IOUtils, SequencesExt

Tr == ndJsonDeserialize(IOEnv.TRACE)
Rng(f) == {f[x] : x \in DOMAIN f}
ToAut(j) == [fin |-> Rng(j.fin), rules |-> Rng(j.rules)]
\* [[k,v]..] -> function
PairsToFun(ps) == [k \in {p[1] : p \in Rng(ps)} |-> (CHOOSE p \in Rng(ps) : p[1] = k)[2]]
IsFunctional(ps) == \A p \in Rng(ps) : \A s \in Rng(ps) : p[1] = s[1] => p[2] = s[2]
TF(b) == IF b THEN "T" ELSE "F"
Has(e, k) == k \in DOMAIN e
Unchanged(e) == ({"A"} \cap DOMAIN e = {} \/ ToAut(e.res.A_after) = ToAut(e.A))
             /\ ({"B"} \cap DOMAIN e = {} \/ ToAut(e.res.B_after) = ToAut(e.B))
             \* a copy of A (sharing its storage) that was alive during the call still has A's value
             /\ ({"keep_after"} \cap DOMAIN e.res = {} \/ ToAut(e.res.keep_after) = ToAut(e.A))
Why(b, s) == IF b THEN {} ELSE {s}

SelNames == <<"up", "up_sim", "dn", "dn_sim", "dr", "dr_sim", "dro", "dro_sim">>

(***************************************************************************)
(* C01  InclPost: every selection returns Incl(A,B)                        *)
(***************************************************************************)
InclFails(e) ==
  \* "swap": the call was CheckInclusion(B, A) (the second operand - e.g. an edited copy of the first - as the smaller one)
  LET A == ToAut(e.A)  B == ToAut(e.B)  exp == TF(IF Has(e, "swap") THEN Incl(B, A) ELSE Incl(A, B))
  IN {SelNames[i] : i \in {j \in 1..8 : e.res.v[j] # exp}} \cup Why(Unchanged(e), "operand-changed")

(***************************************************************************)
(* C02                                                                     *)
(***************************************************************************)
UnionFails(e) ==
  LET A == ToAut(e.A)  B == ToAut(e.B)  R == ToAut(e.res.R)
      hasMaps == Has(e.res, "mapL")
      mL == PairsToFun(e.res.mapL)  mR == PairsToFun(e.res.mapR)
  IN Why(LangEq(R, Union(A, B)), "language")
     \cup Why(Unchanged(e), "operand-changed")
     \cup (IF ~hasMaps THEN {} ELSE
            Why(IsFunctional(e.res.mapL) /\ IsFunctional(e.res.mapR), "map-not-functional")
            \cup Why(States(A) \subseteq DOMAIN mL /\ States(B) \subseteq DOMAIN mR, "map-not-total")
            \cup Why(States(R) \subseteq Rng(mL) \cup Rng(mR), "result-state-unnamed")
            \cup Why(\A p \in States(A) \cap DOMAIN mL : StateLangEq(R, mL[p], A, p), "mapL-wrong-state")
            \cup Why(\A q \in States(B) \cap DOMAIN mR : StateLangEq(R, mR[q], B, q), "mapR-wrong-state")
            \cup (IF Has(e, "preL")
                  THEN Why(Rng(e.preL) \subseteq Rng(e.res.mapL) /\ Rng(e.preR) \subseteq Rng(e.res.mapR), "prefilled-entry-lost")
                  ELSE {}))

UnionDisjFails(e) ==
  LET A == ToAut(e.A)  B == ToAut(e.B)  R == ToAut(e.res.R)
  IN IF States(A) \cap States(B) # {} THEN {}          \* outside the operation's domain: vacuous
     ELSE Why(LangEq(R, DUnion(A, B)), "language") \cup Why(Unchanged(e), "operand-changed")

IsectFails(e) ==
  LET A == ToAut(e.A)  B == ToAut(e.B)  R == ToAut(e.res.R)
      hasMap == Has(e.res, "map")
      M == IF hasMap THEN Rng(e.res.map) ELSE {}          \* triples <<p, q, u>>
  IN Why(LangEq(R, Prod(A, B)), "language")
     \cup Why(Unchanged(e), "operand-changed")
     \cup (IF ~hasMap THEN {} ELSE
            Why(\A u \in States(R) : Cardinality({m \in M : m[3] = u}) = 1, "state-not-image-of-exactly-one-pair")
            \cup Why(\A m \in M : \A k \in M : (m[1] = k[1] /\ m[2] = k[2]) => m[3] = k[3], "map-not-functional")
            \cup Why(\A m \in {x \in M : x[3] \in States(R)} :
                        StateIncl(R, m[3], A, m[1]) /\ StateIncl(R, m[3], B, m[2]), "state-exceeds-its-pair"))

(***************************************************************************)
(* C03                                                                     *)
(***************************************************************************)
TrimFails(e) ==
  LET A == ToAut(e.A)  U == ToAut(e.res.unreach)  S == ToAut(e.res.useless)
  IN Why(LangEq(U, A), "unreach-language")
     \cup Why(States(U) \subseteq TopReach(U), "unreach-leaves-unreachable-state")
     \cup Why(LangEq(S, A), "useless-language")
     \cup Why(IsTrim(S), "useless-leaves-useless")
     \cup Why(e.res.empty = Empty(A), "emptiness")
     \cup Why(Unchanged(e), "operand-changed")

(***************************************************************************)
(* C04  relations are n x n 0/1 matrices, row q column r = get(q,r)        *)
(***************************************************************************)
MatrixIs(m, Q, R) == \A q \in Q : \A r \in Q : m[q + 1][r + 1] = (IF <<q, r>> \in R THEN 1 ELSE 0)
SimFails(e) ==
  LET A == ToAut(e.A)  Q == States(A)
  IN (IF Has(e.res, "down") THEN Why(MatrixIs(e.res.down, Q, DownSim(A)), "down") ELSE {})
     \cup (IF Has(e.res, "up") /\ IsTrim(A) /\ States(A) = RuleStates(A)
           THEN Why(MatrixIs(e.res.up, Q, UpSim(A)), "up") ELSE {})
     \cup Why(Unchanged(e), "operand-changed")

(***************************************************************************)
(* C05                                                                     *)
(***************************************************************************)
ReduceFails(e) ==
  LET A == ToAut(e.A)  R == ToAut(e.res.R)
  IN Why(LangEq(R, A), "language")
     \cup Why(Cardinality(States(R)) <= Cardinality(States(A)), "more-states")
     \cup Why(Cardinality(R.rules) <= Cardinality(A.rules), "more-rules")
     \cup Why(\A u \in States(R) : \E q \in States(A) : StateLangEq(R, u, A, q), "state-not-an-image")
     \cup Why(Unchanged(e), "operand-changed")

(***************************************************************************)
(* C06  S = the alphabet after the call (everything registered)            *)
(***************************************************************************)
ComplFails(e) ==
  LET A == ToAut(e.A)  C == ToAut(e.res.R)  S == {<<s[1], s[2]>> : s \in Rng(e.res.alphabet)}
      AT == Tag(A, 1)  CT == Tag(C, 2)
  IN Why(Empty(Prod(A, C)), "accepts-a-tree-of-A")
     \cup Why(Incl(Top(S), DUnion(AT, CT)), "misses-a-tree")
     \cup Why(Syms(C) \subseteq S, "symbol-outside-alphabet")
     \cup Why(Unchanged(e), "operand-changed")

(***************************************************************************)
(* C14                                                                     *)
(***************************************************************************)
ReindexFails(e) ==
  LET A == ToAut(e.A)  R == ToAut(e.res.R)
  IN Why(Unchanged(e), "operand-changed") \cup
     (IF e.how = "weak" THEN
        LET f == PairsToFun(e.res.map_after) IN
        Why(IsFunctional(e.res.map_after), "map-not-functional")
        \cup Why(States(A) \subseteq DOMAIN f, "map-not-total")
        \cup Why(Rng(e.map) \subseteq Rng(e.res.map_after), "prefilled-entry-lost")
        \cup (IF States(A) \subseteq DOMAIN f THEN Why(R = Image(A, f), "not-the-image") ELSE {})
      ELSE LET f == PairsToFun(e.map)
               I == Image(A, f)
               addF == IF Has(e, "addFinal") THEN e.addFinal ELSE TRUE
               I2 == IF addF THEN I ELSE [fin |-> {}, rules |-> I.rules]
           IN IF e.how = "dst"
              THEN LET D == ToAut(e.D) IN Why(R = [fin |-> D.fin \cup I2.fin, rules |-> D.rules \cup I2.rules], "not-dst-plus-image")
              ELSE Why(R = I2, "not-the-image"))

TranslSymFails(e) ==
  LET A == ToAut(e.A)  R == ToAut(e.res.R)
      g(s, n) == LET hits == {m \in Rng(e.symmap) : m[1] = s /\ m[2] = n}
                 IN (CHOOSE m \in hits : TRUE)[3]
      I == [fin |-> A.fin, rules |-> {<<g(r[1], Len(r[2])), r[2], r[3]>> : r \in A.rules}]
  IN Why(R = I, "not-the-image") \cup Why(Unchanged(e), "operand-changed")

(***************************************************************************)
(* C15                                                                     *)
(***************************************************************************)
WitnessFails(e) ==
  LET A == ToAut(e.A)  W == ToAut(e.res.R)
  IN Why(Incl(W, A), "not-a-sublanguage")
     \cup Why(Empty(A) \/ ~Empty(W), "empty-for-nonempty")
     \cup Why(Unchanged(e), "operand-changed")

(***************************************************************************)
(* C07  BDD encodings: every selection that returns a verdict returns      *)
(* Incl(A,B); "N" = NotImplementedException.  The selections implemented   *)
(* today must not fail with any other exception; the probes of             *)
(* unimplemented selections may throw anything but never a wrong verdict.  *)
(***************************************************************************)
BddImplemented == {"bu_up", "bu_dr_sim", "bu_dr_sim_att", "td_dr", "td_dro", "td_dr_sim", "td_dro_sim"}
BddInclFails(e) ==
  LET A == ToAut(e.A)  B == ToAut(e.B)  exp == TF(Incl(A, B))
  IN {k \in DOMAIN e.res.v :
        LET x == e.res.v[k] IN
        IF k \in BddImplemented THEN x \notin {exp, "N"} ELSE x \in {"T", "F"} /\ x # exp}

\* the CLI's `load -p` / `load -s`: one trimming per event
Trim2Fails(e) ==
  LET A == ToAut(e.A) IN
  (IF Has(e.res, "unreach") THEN LET U == ToAut(e.res.unreach) IN
       Why(LangEq(U, A), "unreach-language")
       \* the BDD encodings remove BOTTOM-UP unreachable states; C08 demands language preservation only (langonly)
       \cup (IF Has(e, "langonly") THEN {} ELSE Why(States(U) \subseteq TopReach(U), "unreach-leaves-unreachable-state")) ELSE {})
  \cup (IF Has(e.res, "useless") THEN LET S == ToAut(e.res.useless) IN
       Why(LangEq(S, A), "useless-language") \cup Why(IsTrim(S), "useless-leaves-useless") ELSE {})

(***************************************************************************)
(* Sub-call answers of the downward inclusion algorithms (guarded hook):   *)
(* e.res.SA / SB = the operands as the algorithm saw them, e.res.answers = *)
(* <<p, P, v, abs>>: "L(p) is inside the union of L(q), q in P" was        *)
(* answered v; a negative answer is always absolute, a positive one only   *)
(* when abs = 1 (no pending hypotheses).  This is the soundness invariant  *)
(* of the caches of the Layer-2 model InclDown (nonIncl entries are true   *)
(* non-inclusions, global inclusion entries true inclusions), evaluated on *)
(* the real run.  Evidence only - see p_ta.binding_incldown.               *)
(***************************************************************************)
MacroIncl(A, p, B, P) == Incl([fin |-> {p}, rules |-> A.rules], [fin |-> P, rules |-> B.rules])
DownAnsFails(e) ==
  LET A == ToAut(e.res.SA)  B == ToAut(e.res.SB)
      bad == {i \in DOMAIN e.res.answers :
                LET a == e.res.answers[i]  inc == MacroIncl(A, a[1], B, Rng(a[2]))
                IN (a[3] = 0 /\ inc) \/ (a[3] = 1 /\ a[4] = 1 /\ ~inc)}
  IN IF bad = {} THEN {} ELSE {"unsound-sub-answer"}

Fails(e) ==
  IF e.outcome # "ok" THEN {"outcome:" \o e.outcome}
  ELSE CASE e.op = "incl"      -> InclFails(e)
         [] e.op = "union"     -> UnionFails(e)
         [] e.op = "uniondisj" -> UnionDisjFails(e)
         [] e.op = "isect"     -> IsectFails(e)
         [] e.op = "trim"      -> TrimFails(e)
         [] e.op = "trim2"     -> Trim2Fails(e)
         [] e.op = "sim"       -> SimFails(e)
         [] e.op = "reduce"    -> ReduceFails(e)
         [] e.op = "compl"     -> ComplFails(e)
         [] e.op = "reindex"   -> ReindexFails(e)
         [] e.op = "translsym" -> TranslSymFails(e)
         [] e.op = "witness"   -> WitnessFails(e)
         [] e.op = "incldowntrace" -> DownAnsFails(e)
         [] e.op = "bddincl"   -> BddInclFails(e)
         [] OTHER              -> {"unknown-op"}

VARIABLE l
Init == l \in 1..Len(Tr)
Next == UNCHANGED l
EventOK == LET f == Fails(Tr[l]) IN f = {} \/ (PrintT(<<"VFAIL", l, f>>) /\ FALSE)
=============================================================================
