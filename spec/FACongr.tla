------------------------------- MODULE FACongr -------------------------------
(***************************************************************************)
(* Layer 2 (C09): inclusion by bisimulation up to congruence as written in *)
(* explicit_finite_congr_fctor_cache_opt.hh + explicit_finite_incl.cc.     *)
(* CheckInclusion replaces the smaller operand by U = A (+) B (disjoint    *)
(* union) and checks U ~ B: product states are pairs <<X, Y>> of a         *)
(* macro-state of U and one of B.                                          *)
(*   Init    <<start_U, start_B>> goes to the work list `nxt`; different   *)
(*           acceptance ends with FALSE;                                   *)
(*   Step    the BACK of nxt is popped (depth: new pairs are appended at   *)
(*           the back; breadth: inserted at the front).  The congruence    *)
(*           closure of Y under the rules in nxt and rel is computed rule  *)
(*           by rule in index order, pass after pass, each rule at most    *)
(*           once, a rule <<Xi, Yi>> firing when Yi is inside the set (or, *)
(*           if Y was closed before, when the memo usedRules says a rule   *)
(*           with that Yi fired for Y then); the computation stops as soon *)
(*           as X is inside.  X inside the closure: the pair is dropped.   *)
(*           Otherwise its successors under every symbol (in any order -   *)
(*           the code follows hash-table order) are compared (different    *)
(*           acceptance: FALSE), unvisited non-empty ones are added to nxt,*)
(*           and the pair joins rel;                                       *)
(*   Finish  nxt empty: TRUE.                                              *)
(* Properties: Exact (verdict = FA!FAIncl), Terminates, MemoSound.         *)
(* Mutants: MemoBySetOnly (the memo forgets which rule fired),             *)
(* KeepPopped (the closure still sees the popped pair as a rule),          *)
(* InitNoFinalCheck, DropHalfEmpty (a successor pair with one empty side   *)
(* is not explored).                                                       *)
(***************************************************************************)
EXTENDS FA, TLC, Json, FiniteSetsExt, SequencesExt
CONSTANTS NB, MaxEB, AKind, Order, EmptyUncached, MemoBySetOnly, KeepPopped, InitNoFinalCheck, DropHalfEmpty
Alpha == {0, 1}
VARIABLES A, B, rel, nxt, visited, memo, verdict
vars == <<A, B, rel, nxt, visited, memo, verdict>>
U == FDUnion(A, B)
Acc(N, S) == S \cap N.fin # {}

\* one pass over a rule sequence; st = [set, memo, usedN, usedR, applied, stop]
RECURSIVE Pass(_, _, _, _, _, _, _)
Pass(st, rules, i, isN, X, Yo, vis) ==
  IF st.stop \/ i > Len(rules) THEN st
  ELSE LET used == IF isN THEN st.usedN ELSE st.usedR
           rule == rules[i]
           hit == (vis /\ (IF MemoBySetOnly THEN TRUE ELSE <<Yo, rule[2]>> \in st.memo)) \/ rule[2] \subseteq st.set
       IN IF i \in used \/ ~hit THEN Pass(st, rules, i + 1, isN, X, Yo, vis)
          ELSE LET set2 == st.set \cup rule[1] \cup rule[2]
                   st2 == [set |-> set2,
                           memo |-> IF vis \/ (EmptyUncached /\ Yo = {}) THEN st.memo ELSE st.memo \cup {<<Yo, rule[2]>>},
                           usedN |-> IF isN THEN st.usedN \cup {i} ELSE st.usedN,
                           usedR |-> IF isN THEN st.usedR ELSE st.usedR \cup {i},
                           applied |-> TRUE,
                           stop |-> X \subseteq set2]
               IN Pass(st2, rules, i + 1, isN, X, Yo, vis)
RECURSIVE Closure(_, _, _, _, _, _)
Closure(st, N, R, X, Yo, vis) ==
  IF ~st.applied THEN st
  ELSE LET s0 == [st EXCEPT !.applied = FALSE]
           s1 == Pass(s0, N, 1, TRUE, X, Yo, vis)
       IN IF s1.stop THEN s1
          ELSE LET s2 == Pass(s1, R, 1, FALSE, X, Yo, vis)
               IN IF s2.stop THEN s2 ELSE Closure(s2, N, R, X, Yo, vis)

\* MacroStateCache::insert never recognises an EMPTY macro-state (its areEqual is false when a side is empty): every
\* empty set gets a cache entry and an address of its own, so a pair with an empty B-side is never found in
\* visitedPairs_ and an empty Y never has a memo.  EmptyUncached = TRUE models the code as written, FALSE the design.
Known(q, vis) == q \in vis /\ ~(EmptyUncached /\ q[2] = {})
\* the successor pairs put on the work list, in order (visitedPairs_ is updated as they are added)
RECURSIVE NewPairs(_, _)
NewPairs(qs, vis) ==
  IF qs = <<>> THEN <<>>
  ELSE LET q == Head(qs) IN
       IF ~Known(q, vis) THEN <<q>> \o NewPairs(Tail(qs), vis \cup {q})
       ELSE NewPairs(Tail(qs), vis)
QB == 10..(9 + NB)
EdgesB == {<<p, a, q>> : p \in QB, a \in Alpha, q \in QB}
NFAsB == {[start |-> S, fin |-> F, delta |-> D] : S \in SUBSET QB, F \in SUBSET QB, D \in UNION {kSubset(k, EdgesB) : k \in 0..MaxEB}}
AChoices == IF AKind = "loop" THEN {[start |-> {0}, fin |-> {0}, delta |-> {<<0, 0, 0>>}]}
            ELSE {[start |-> {0}, fin |-> {0}, delta |-> {<<0, 0, 0>>}],
                  [start |-> {0}, fin |-> {1}, delta |-> {<<0, 0, 1>>, <<1, 1, 0>>, <<1, 0, 1>>}],
                  [start |-> {0, 1}, fin |-> {0}, delta |-> {<<0, 0, 1>>, <<1, 0, 0>>, <<0, 1, 0>>}],
                  [start |-> {0}, fin |-> {2}, delta |-> {<<0, 0, 1>>, <<0, 1, 1>>, <<1, 0, 2>>, <<2, 1, 0>>}]}

Init == /\ A \in AChoices /\ B \in NFAsB
        /\ LET X0 == A.start \cup B.start  Y0 == B.start IN
           /\ nxt = <<<<X0, Y0>>>> /\ visited = {<<X0, Y0>>}
           /\ verdict = IF ~InitNoFinalCheck /\ Acc(U, X0) # Acc(B, Y0) THEN "F" ELSE "run"
        /\ rel = <<>> /\ memo = {}
\* one MakePost; ord = the order in which the symbols are met
StepOf(ord) ==
  /\ verdict = "run" /\ nxt # <<>>
  /\ LET p == nxt[Len(nxt)]  X == p[1]  Y == p[2]
         N == IF KeepPopped THEN nxt ELSE Front(nxt)
         vis == (\E m \in memo : m[1] = Y) /\ ~(EmptyUncached /\ Y = {})
         c == Closure([set |-> Y, memo |-> memo, usedN |-> {}, usedR |-> {}, applied |-> TRUE, stop |-> FALSE], N, rel, X, Y, vis)
     IN IF c.stop \/ X \subseteq c.set
        THEN /\ nxt' = Front(nxt) /\ memo' = c.memo /\ UNCHANGED <<rel, visited, verdict>>
        ELSE LET syms == {e[2] : e \in {x \in U.delta : x[1] \in X}}
                 succ(a) == <<FPost(U, X, a), FPost(B, Y, a)>>
                 bad == \E a \in syms : Acc(U, succ(a)[1]) # Acc(B, succ(a)[2])
                 live(q) == IF DropHalfEmpty THEN q[1] # {} /\ q[2] # {} ELSE q[1] # {} \/ q[2] # {}
             IN /\ ord \in {o \in [1..Cardinality(syms) -> syms] : \A i, j \in DOMAIN o : i # j => o[i] # o[j]}
                /\ IF bad THEN verdict' = "F" /\ UNCHANGED <<rel, nxt, visited, memo>>
                   ELSE LET dedup == NewPairs(SelectSeq([i \in DOMAIN ord |-> succ(ord[i])], live), visited)
                        IN /\ nxt' = IF Order = "depth" THEN Front(nxt) \o dedup ELSE Reverse(dedup) \o Front(nxt)
                           /\ visited' = visited \cup {dedup[i] : i \in DOMAIN dedup}
                           /\ rel' = Append(rel, p) /\ memo' = c.memo /\ UNCHANGED verdict
  /\ UNCHANGED <<A, B>>
Step == \E ord \in UNION {[1..k -> Alpha] : k \in 0..2} : StepOf(ord)
Finish == verdict = "run" /\ nxt = <<>> /\ verdict' = "T" /\ UNCHANGED <<A, B, rel, nxt, visited, memo>>
Next == Step \/ Finish
Spec == Init /\ [][Next]_vars /\ WF_vars(Next)
Exact == verdict \in {"T", "F"} => ((verdict = "T") = FAIncl(A, B))
\* every pair ever put on the work list or into rel has Y inside X (Y is the B-part of X)
Shape == \A i \in DOMAIN nxt : nxt[i][2] \subseteq nxt[i][1]
Terminates == <>(verdict # "run")
ExactK == Exact \/ (PrintT(<<"KILLER", ToJson([A |-> A, B |-> B])>>) /\ FALSE)
=============================================================================
