CONSTANTS MaxR = 3  NQ = 2  Rank3 = TRUE  DoubleIdx = FALSE  EnvNoParent = FALSE  EnvNoIndex = FALSE  OneBlock = FALSE  SkipLeaf = FALSE  SharedPos = FALSE
SPECIFICATION Spec
INVARIANT DownExact UpExact
CHECK_DEADLOCK FALSE
