------------------------------- MODULE CowStore -------------------------------
(***************************************************************************)
(* Layer 2 (C11): the three-level copy-on-write rule storage of            *)
(* ExplicitTreeAutCore                                                     *)
(*   handle -> shared map (state -> cluster) -> shared cluster (symbol ->  *)
(*   tuple set) -> shared tuple set                                        *)
(* with the unique()-tests made before every mutation                      *)
(* (uniqueClusterMap / uniqueCluster / uniqueTuplePtrSet), Clear() with    *)
(* its shared / unshared branch, copy / assignment (share the map),        *)
(* derived results that share CLUSTERS with their operand                  *)
(* (RemoveUnreachableStates, UnionDisjointStates), destruction.            *)
(* Reference counts are DERIVED from reachability exactly as               *)
(* shared_ptr::unique() observes them.  The ghost variable exp is the      *)
(* state of Value.tla driven by the same actions; the invariant Refines    *)
(* says every live handle denotes exactly its abstract value - i.e. the    *)
(* storage refines Value (isolation of copies, frozen results).            *)
(* The Skip / InPlace constants replace one make-unique step by its most   *)
(* plausible wrong version ("model mutants", DESIGN 2.8); all FALSE is the *)
(* code as written.                                                        *)
(* hist records the actions taken so that TLC-found behaviours can be      *)
(* replayed on the real ExplicitTreeAut (it is hidden from the state by    *)
(* the VIEW in the cfg).                                                   *)
(***************************************************************************)
EXTENDS Naturals, Sequences, FiniteSets, TLC, Json
CONSTANTS NH, NM, NC, NT, MaxSteps,
          SkipUniqueMap, SkipUniqueCluster, SkipUniqueTs, ClearInPlace,
          Emit          \* TRUE: print the history of every state as JSON (case generation)
Q == {0, 1}
Sym == {"a", "g"}
Tup(s) == IF s = "a" THEN {<<>>} ELSE {<<0>>, <<1>>}
RU == UNION {{<<s, k, q>> : k \in Tup(s), q \in Q} : s \in Sym}
H == 1..NH
VARIABLES hmap, hfin, maps, clus, ts, exp, steps, hist
vars == <<hmap, hfin, maps, clus, ts, exp, steps, hist>>
view == <<hmap, hfin, maps, clus, ts, exp, steps>>

LM(hm) == {hm[h] : h \in {x \in H : hm[x] # 0}}
RcMap(hm, m) == Cardinality({h \in H : hm[h] = m})
LC(hm, mp) == {mp[m][q] : m \in LM(hm), q \in Q} \ {0}
RcClus(hm, mp, c) == Cardinality({x \in LM(hm) \X Q : mp[x[1]][x[2]] = c})
LT(hm, mp, cl) == {cl[c][s] : c \in LC(hm, mp), s \in Sym} \ {0}
RcTs(hm, mp, cl, t) == Cardinality({x \in LC(hm, mp) \X Sym : cl[x[1]][x[2]] = t})
Least(F) == IF F = {} THEN 0 ELSE CHOOSE m \in F : \A o \in F : m <= o
FreshM(hm) == Least((1..NM) \ LM(hm))
FreshC(hm, mp) == Least((1..NC) \ LC(hm, mp))
FreshT(hm, mp, cl) == Least((1..NT) \ LT(hm, mp, cl))
EmptyMap == [q \in Q |-> 0]
EmptyClus == [s \in Sym |-> 0]

\* the rules a handle denotes
Val(hm, mp, cl, tt, h) ==
  LET m == hm[h] IN
  UNION {UNION {IF mp[m][q] = 0 \/ cl[mp[m][q]][s] = 0 THEN {}
                ELSE {<<s, k, q>> : k \in tt[cl[mp[m][q]][s]]} : s \in Sym} : q \in Q}

Init == /\ hmap = [h \in H |-> 0] /\ hfin = [h \in H |-> {}]
        /\ maps = [m \in 1..NM |-> EmptyMap] /\ clus = [c \in 1..NC |-> EmptyClus] /\ ts = [t \in 1..NT |-> {}]
        /\ exp = [h \in H |-> [alive |-> FALSE, rules |-> {}, fin |-> {}]] /\ steps = 0 /\ hist = <<>>
Tick(ev) == steps < MaxSteps /\ steps' = steps + 1 /\ hist' = Append(hist, ev)

New(h) ==
  /\ hmap[h] = 0 /\ FreshM(hmap) # 0 /\ Tick(<<"new", h - 1>>)
  /\ hmap' = [hmap EXCEPT ![h] = FreshM(hmap)] /\ maps' = [maps EXCEPT ![FreshM(hmap)] = EmptyMap]
  /\ hfin' = [hfin EXCEPT ![h] = {}] /\ exp' = [exp EXCEPT ![h] = [alive |-> TRUE, rules |-> {}, fin |-> {}]]
  /\ UNCHANGED <<clus, ts>>
\* copy construction (h dead) or assignment (h live): the map is shared
CopyAssign(h, g) ==
  /\ h # g /\ hmap[g] # 0
  /\ Tick(IF hmap[h] = 0 THEN <<"copyctor", h - 1, g - 1>> ELSE <<"assign", h - 1, g - 1>>)
  /\ hmap' = [hmap EXCEPT ![h] = hmap[g]] /\ hfin' = [hfin EXCEPT ![h] = hfin[g]]
  /\ exp' = [exp EXCEPT ![h] = exp[g]] /\ UNCHANGED <<maps, clus, ts>>
Destroy(h) ==
  /\ hmap[h] # 0 /\ Tick(<<"destroy", h - 1>>)
  /\ hmap' = [hmap EXCEPT ![h] = 0] /\ hfin' = [hfin EXCEPT ![h] = {}]
  /\ exp' = [exp EXCEPT ![h] = [alive |-> FALSE, rules |-> {}, fin |-> {}]] /\ UNCHANGED <<maps, clus, ts>>
SetFinal(h, q) ==
  /\ hmap[h] # 0 /\ q \notin hfin[h] /\ Tick(<<"final", h - 1, q>>)
  /\ hfin' = [hfin EXCEPT ![h] = @ \cup {q}]
  /\ exp' = [exp EXCEPT ![h].fin = @ \cup {q}] /\ UNCHANGED <<hmap, maps, clus, ts>>
Clear(h) ==
  /\ hmap[h] # 0 /\ Tick(<<"clear", h - 1>>)
  /\ IF RcMap(hmap, hmap[h]) > 1 /\ ~ClearInPlace
     THEN FreshM(hmap) # 0 /\ hmap' = [hmap EXCEPT ![h] = FreshM(hmap)] /\ maps' = [maps EXCEPT ![FreshM(hmap)] = EmptyMap]
     ELSE hmap' = hmap /\ maps' = [maps EXCEPT ![hmap[h]] = EmptyMap]
  /\ hfin' = [hfin EXCEPT ![h] = {}] /\ exp' = [exp EXCEPT ![h] = [alive |-> TRUE, rules |-> {}, fin |-> {}]]
  /\ UNCHANGED <<clus, ts>>

\* AddTransition: uniqueClusterMap() -> uniqueCluster(parent) -> uniqueTuplePtrSet(symbol) -> insert(children)
Add(h, r) ==
  /\ hmap[h] # 0 /\ Tick(<<"add", h - 1, r>>)
  /\ LET s == r[1]  k == r[2]  q == r[3]  m0 == hmap[h]
         needM == RcMap(hmap, m0) > 1 /\ ~SkipUniqueMap
         m1 == IF needM THEN FreshM(hmap) ELSE m0
         hm1 == [hmap EXCEPT ![h] = m1]
         mp1 == IF needM THEN [maps EXCEPT ![m1] = maps[m0]] ELSE maps
         c0 == mp1[m1][q]
         needC == c0 = 0 \/ (RcClus(hm1, mp1, c0) > 1 /\ ~SkipUniqueCluster)
         c1 == IF needC THEN FreshC(hm1, mp1) ELSE c0
         cl1 == IF needC THEN [clus EXCEPT ![c1] = IF c0 = 0 THEN EmptyClus ELSE clus[c0]] ELSE clus
         mp2 == [mp1 EXCEPT ![m1][q] = c1]
         t0 == cl1[c1][s]
         needT == t0 = 0 \/ (RcTs(hm1, mp2, cl1, t0) > 1 /\ ~SkipUniqueTs)
         t1 == IF needT THEN FreshT(hm1, mp2, cl1) ELSE t0
         tt1 == IF needT THEN [ts EXCEPT ![t1] = IF t0 = 0 THEN {} ELSE ts[t0]] ELSE ts
         cl2 == [cl1 EXCEPT ![c1][s] = t1]
     IN /\ m1 # 0 /\ c1 # 0 /\ t1 # 0
        /\ hmap' = hm1 /\ maps' = mp2 /\ clus' = cl2 /\ ts' = [tt1 EXCEPT ![t1] = @ \cup {k}]
  /\ exp' = [exp EXCEPT ![h].rules = @ \cup {r}] /\ UNCHANGED hfin

\* a derived result that shares the CLUSTERS of the states it keeps with its operand
\* (RemoveUnreachableStates keeps the reachable states: K = the states reachable from hfin[g])
RECURSIVE ReachFrom(_, _)
ReachFrom(R, S) == LET S2 == S \cup UNION {{r[2][i] : i \in 1..Len(r[2])} : r \in {x \in R : x[3] \in S}}
                   IN IF S2 = S THEN S ELSE ReachFrom(R, S2)
DeriveUnreach(h, g) ==
  /\ h # g /\ hmap[h] = 0 /\ hmap[g] # 0 /\ FreshM(hmap) # 0 /\ Tick(<<"derive", h - 1, "unreach", g - 1>>)
  /\ LET m == FreshM(hmap)  K == ReachFrom(exp[g].rules, hfin[g]) IN
       /\ hmap' = [hmap EXCEPT ![h] = m]
       /\ maps' = [maps EXCEPT ![m] = [q \in Q |-> IF q \in K THEN maps[hmap[g]][q] ELSE 0]]
       /\ exp' = [exp EXCEPT ![h] = [alive |-> TRUE, rules |-> {r \in exp[g].rules : r[3] \in K}, fin |-> exp[g].fin]]
  /\ hfin' = [hfin EXCEPT ![h] = hfin[g]]
  /\ UNCHANGED <<clus, ts>>

Next == \E h \in H : \/ New(h) \/ Destroy(h) \/ Clear(h)
                     \/ \E g \in H : CopyAssign(h, g) \/ DeriveUnreach(h, g)
                     \/ \E q \in Q : SetFinal(h, q)
                     \/ \E r \in RU : Add(h, r)
Spec == Init /\ [][Next]_vars

\* refinement of Value.tla: every live handle denotes exactly its abstract value
Refines == \A h \in H : IF hmap[h] = 0 THEN ~exp[h].alive
                        ELSE exp[h].alive /\ Val(hmap, maps, clus, ts, h) = exp[h].rules /\ hfin[h] = exp[h].fin
RefinesK == Refines \/ (PrintT(<<"KILLER", ToJson(hist)>>) /\ FALSE)
\* case generation: print the history that led to each (distinct) state
EmitHist == (Emit /\ steps > 0) => PrintT(<<"HIST", ToJson(hist)>>)
=============================================================================
