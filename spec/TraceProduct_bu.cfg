CONSTANTS MaxRA = 0  MaxRB = 0  NQ = 1  Mode = "bu"  SelfLoopAlways = FALSE  FinalAtLeavesOnly = FALSE  NoRepush = FALSE  FirstFinalOnly = FALSE  PushNever = FALSE
SPECIFICATION TSpec
POSTCONDITION TraceAccepted
CHECK_DEADLOCK FALSE
