----------------------------- MODULE TraceFAAnti -----------------------------
(***************************************************************************)
(* Step-level binding of the Layer-2 model FAAntichain to the code:        *)
(* executions of the real antichain inclusion algorithm for finite         *)
(* automata, recorded through the guarded hook in                          *)
(* explicit_finite_incl_fctor_cache.hh (Start, Pick) plus the verdict the  *)
(* call returned, must be behaviours of the model.  The antichain, the     *)
(* work list and the memo are NOT logged: the model's own transition       *)
(* computes them, and a logged Pick must be an element of the model's work *)
(* list of minimal size (the code's tie-breaking by state and address is   *)
(* one of the schedules the model allows).  Evidence only (DESIGN 2.7).    *)
(***************************************************************************)
EXTENDS FAAntichain, IOUtils

Tr == ndJsonDeserialize(IOEnv.TRACE)
VARIABLE l
tvars == <<A, B, ac, nxt, sub, nsub, verdict, l>>
Rng(f) == {f[x] : x \in DOMAIN f}
E == Tr[l]
ToNfa(j) == [start |-> Rng(j.start), fin |-> Rng(j.fin), delta |-> Rng(j.delta)]
IsEvent(n) == l <= Len(Tr) /\ Tr[l].e = n /\ l' = l + 1

TInit == l = 1 /\ A = [start |-> {}, fin |-> {}, delta |-> {}] /\ B = [start |-> {}, fin |-> {}, delta |-> {}]
         /\ ac = {} /\ nxt = {} /\ sub = {} /\ nsub = {} /\ verdict = "idle"
TStart == /\ IsEvent("Start")
          /\ LET A0 == ToNfa(E.A)  B0 == ToNfa(E.B)
                 bad == \E s \in A0.start : s \in A0.fin /\ B0.start \cap B0.fin = {}
                 st == AddAll([ac |-> {}, nxt |-> {}, m |-> [s |-> {}, n |-> {}]], {<<s, B0.start>> : s \in A0.start})
             IN /\ A' = A0 /\ B' = B0 /\ verdict' = IF bad THEN "F" ELSE "run"
                /\ ac' = st.ac /\ nxt' = st.nxt /\ sub' = st.m.s /\ nsub' = st.m.n
TPick == IsEvent("Pick") /\ PickOf(<<E.q, Rng(E.S)>>)
TVerdict == /\ IsEvent("Verdict")
            /\ IF E.v THEN verdict = "run" /\ nxt = {} /\ verdict' = "T" ELSE verdict = "F" /\ verdict' = "F"
            /\ UNCHANGED <<A, B, ac, nxt, sub, nsub>>
TNext == TStart \/ TPick \/ TVerdict
TSpec == TInit /\ [][TNext]_tvars
TraceAccepted ==
  LET d == TLCGet("stats").diameter IN
  IF d - 1 = Len(Tr) THEN TRUE ELSE PrintT(<<"TRACE-STUCK", d>>) /\ FALSE
=============================================================================
