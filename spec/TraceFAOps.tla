----------------------------- MODULE TraceFAOps -----------------------------
(***************************************************************************)
(* Step-level binding of the Layer-2 model FAOps to the code: executions   *)
(* of the finite-automata Intersection, RemoveUnreachableStates and        *)
(* GetCandidateTree recorded through the guarded hook (one Pop per work-   *)
(* list element taken) must be behaviours of the model: a logged Pop must  *)
(* take an element the model has on its work list, and the automaton       *)
(* returned (for the intersection read back through the product map) must  *)
(* be the model's `out`.  The reached set, the result under construction   *)
(* and, for the witness, the successor that ended the search are NOT       *)
(* logged.  Evidence only (DESIGN 2.7).                                    *)
(***************************************************************************)
EXTENDS FAOps, IOUtils
Tr == ndJsonDeserialize(IOEnv.TRACE)
VARIABLE l
tvars == <<op, A, B, work, seen, res, out, done, l>>
Rng(f) == {f[x] : x \in DOMAIN f}
E == Tr[l]
ToNfa(j) == [start |-> Rng(j.start), fin |-> Rng(j.fin), delta |-> {<<x[1], x[2], x[3]>> : x \in Rng(j.delta)}]
IsEvent(n) == l <= Len(Tr) /\ Tr[l].e = n /\ l' = l + 1

TInit == l = 1 /\ op = "idle" /\ A = EmptyNfa /\ B = EmptyNfa /\ work = {} /\ seen = {} /\ res = EmptyNfa /\ out = EmptyNfa /\ done = TRUE
TStart ==
  /\ IsEvent("Start")
  /\ LET X == ToNfa(E.A)  Y == IF E.kind = "isect" THEN ToNfa(E.B) ELSE EmptyNfa IN
     /\ op' = E.kind /\ A' = X /\ B' = Y /\ out' = EmptyNfa /\ done' = FALSE
     /\ CASE E.kind = "isect" -> LET seed == X.start \X Y.start IN work' = seed /\ seen' = seed /\ res' = [start |-> seed, fin |-> {}, delta |-> {}]
          [] E.kind = "witness" -> work' = X.start /\ seen' = X.start /\ res' = [start |-> X.start, fin |-> {}, delta |-> {}]
          [] OTHER -> work' = X.start /\ seen' = X.start /\ res' = EmptyNfa
TPop == /\ IsEvent("Pop")
        /\ \/ (op = "isect" /\ PopIsect(<<E.p, E.q>>))
           \/ (op = "unreach" /\ PopUnreach(E.q))
           \/ (op = "witness" /\ PopWitness(E.q))
TResult ==
  /\ IsEvent("Result")
  /\ FinishIsect \/ FinishUnreach \/ FinishWitness \/ EmptyWordWitness
  /\ IF op = "isect"
     THEN LET R == ToNfa(E.R)
              M == Rng(E.map)
              inv == [u \in {m[3] : m \in M} |-> LET m == CHOOSE x \in M : x[3] = u IN <<m[1], m[2]>>]
          IN /\ FStates(R) \subseteq DOMAIN inv
             /\ {inv[q] : q \in R.start} = out'.start /\ {inv[q] : q \in R.fin} = out'.fin
             /\ {<<inv[x[1]], x[2], inv[x[3]]>> : x \in R.delta} = out'.delta
     ELSE LET R == ToNfa(E.R) IN out'.start = R.start /\ out'.fin = R.fin /\ out'.delta = R.delta
TNext == TStart \/ TPop \/ TResult
TSpec == TInit /\ [][TNext]_tvars
TraceAccepted ==
  LET d == TLCGet("stats").diameter IN
  IF d - 1 = Len(Tr) THEN TRUE ELSE PrintT(<<"TRACE-STUCK", d>>) /\ FALSE
=============================================================================
