CONSTANTS MaxR = 3  NQ = 3  Rank3 = FALSE  DoubleIdx = FALSE  EnvNoParent = FALSE  EnvNoIndex = FALSE  OneBlock = FALSE  SkipLeaf = FALSE  SharedPos = FALSE
SPECIFICATION Spec
INVARIANT DownExact UpExact
CHECK_DEADLOCK FALSE
