CONSTANTS MaxR = 3  NQ = 3  SizeCompare = FALSE  ArityDecrement = TRUE  EarlyExit = FALSE
SPECIFICATION Spec
INVARIANT PostK
CHECK_DEADLOCK FALSE
