CONSTANTS MaxR = 3  AlphaName = "bgf"  LeafAsWritten = TRUE  InheritCC = FALSE  HypAsFact = FALSE  Family = "all2"
INIT Init
NEXT Next
INVARIANT ExactK
CHECK_DEADLOCK FALSE
