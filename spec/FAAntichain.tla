----------------------------- MODULE FAAntichain -----------------------------
(***************************************************************************)
(* Layer 2 (C09): the antichain inclusion algorithm for finite automata    *)
(* (explicit_finite_incl_fctor_cache.hh) with its memo of set comparisons  *)
(* (subsetMap_ / subsetNotMap_) threaded through contains / refine exactly *)
(* in the order the code queries it.                                       *)
(*   Init   pairs <<s, start_B>> for start states s of A are added to the  *)
(*          antichain `ac` and the work list `nxt` (AddNewPairToAntichain  *)
(*          + AddToNext); a final start state of A without a final start   *)
(*          state of B ends with FALSE;                                    *)
(*   Pick   ANY element of nxt that is minimal in |S| (the code orders by  *)
(*          size, then state, then ADDRESS of the set - every resolution   *)
(*          of the ties is explored); its successors are added;            *)
(*   Finish nxt empty: TRUE.                                               *)
(* Properties: Exact (verdict = FA!FAIncl) and Terminates (under weak      *)
(* fairness the run ends - the memo bug made three incomparable            *)
(* macro-states evict each other forever).                                 *)
(* MemoConverse = TRUE is the memo as it was before the repair (a failed   *)
(* test X <= Y recorded the converse Y <= X as true): TLC refutes Exact    *)
(* and finds the lasso.                                                    *)
(***************************************************************************)
EXTENDS FA, TLC, Json, FiniteSetsExt
CONSTANTS NB, MaxEB, MemoConverse, AKind
Alpha == {0, 1}
VARIABLES A, B, ac, nxt, sub, nsub, verdict
vars == <<A, B, ac, nxt, sub, nsub, verdict>>

\* memoised comparisons thread the memo m = [s |-> known subset pairs, n |-> known non-subset pairs]
Lte(X, Y, m) ==
  IF <<X, Y>> \in m.s THEN [r |-> TRUE, m |-> m]
  ELSE IF <<X, Y>> \in m.n THEN [r |-> FALSE, m |-> m]
  ELSE IF X \subseteq Y
       THEN [r |-> TRUE,  m |-> [s |-> m.s \cup {<<X, Y>>}, n |-> IF MemoConverse THEN m.n \cup {<<Y, X>>} ELSE m.n]]
       ELSE [r |-> FALSE, m |-> [s |-> IF MemoConverse THEN m.s \cup {<<Y, X>>} ELSE m.s, n |-> m.n \cup {<<X, Y>>}]]
Gte(X, Y, m) ==       \* "X is a superset of Y"
  IF MemoConverse
  THEN IF <<X, Y>> \in m.s THEN [r |-> FALSE, m |-> m]
       ELSE IF <<X, Y>> \in m.n THEN [r |-> TRUE, m |-> m]
       ELSE IF Y \subseteq X
            THEN [r |-> TRUE,  m |-> [s |-> m.s \cup {<<Y, X>>}, n |-> m.n \cup {<<X, Y>>}]]
            ELSE [r |-> FALSE, m |-> [s |-> m.s \cup {<<X, Y>>}, n |-> m.n \cup {<<Y, X>>}]]
  ELSE Lte(Y, X, m)

RECURSIVE Contains(_, _, _)
Contains(Ps, S, m) == IF Ps = {} THEN [r |-> FALSE, m |-> m]
                      ELSE LET P == CHOOSE X \in Ps : TRUE  c == Lte(P, S, m)
                           IN IF c.r THEN c ELSE Contains(Ps \ {P}, S, c.m)
RECURSIVE Refine(_, _, _, _)
Refine(Ps, S, m, keep) == IF Ps = {} THEN [k |-> keep, m |-> m]
                          ELSE LET P == CHOOSE X \in Ps : TRUE  c == Gte(P, S, m)
                               IN Refine(Ps \ {P}, S, c.m, IF c.r THEN keep ELSE keep \cup {P})
SetsOf(C, q) == {p[2] : p \in {x \in C : x[1] = q}}
AddPair(st, q, S) ==
  LET c1 == Contains(SetsOf(st.ac, q), S, st.m) IN
  IF c1.r THEN [ac |-> st.ac, nxt |-> st.nxt, m |-> c1.m]
  ELSE LET r1 == Refine(SetsOf(st.ac, q), S, c1.m, {})
           ac2 == {p \in st.ac : p[1] # q} \cup {<<q, P>> : P \in r1.k} \cup {<<q, S>>}
           c2 == Contains(SetsOf(st.nxt, q), S, r1.m)
       IN IF c2.r THEN [ac |-> ac2, nxt |-> st.nxt, m |-> c2.m]
          ELSE LET r2 == Refine(SetsOf(st.nxt, q), S, c2.m, {})
               IN [ac |-> ac2, nxt |-> {p \in st.nxt : p[1] # q} \cup {<<q, P>> : P \in r2.k} \cup {<<q, S>>}, m |-> r2.m]
RECURSIVE AddAll(_, _)
AddAll(st, Xs) == IF Xs = {} THEN st ELSE LET x == CHOOSE y \in Xs : TRUE IN AddAll(AddPair(st, x[1], x[2]), Xs \ {x})

QB == 10..(9 + NB)
EdgesB == {<<p, a, q>> : p \in QB, a \in Alpha, q \in QB}
NFAsB == {[start |-> S, fin |-> F, delta |-> D] : S \in SUBSET QB, F \in SUBSET QB, D \in UNION {kSubset(k, EdgesB) : k \in 0..MaxEB}}
AChoices == IF AKind = "loop" THEN {[start |-> {0}, fin |-> {0}, delta |-> {<<0, 0, 0>>}]}
            ELSE {[start |-> {0}, fin |-> {0}, delta |-> {<<0, 0, 0>>}],
                  [start |-> {0}, fin |-> {1}, delta |-> {<<0, 0, 1>>, <<1, 1, 0>>, <<1, 0, 1>>}],
                  [start |-> {0, 1}, fin |-> {0}, delta |-> {<<0, 0, 1>>, <<1, 0, 0>>, <<0, 1, 0>>}]}

Init == /\ A \in AChoices /\ B \in NFAsB
        /\ LET bad == \E s \in A.start : s \in A.fin /\ B.start \cap B.fin = {}
               st == AddAll([ac |-> {}, nxt |-> {}, m |-> [s |-> {}, n |-> {}]], {<<s, B.start>> : s \in A.start})
           IN /\ verdict = IF bad THEN "F" ELSE "run"
              /\ ac = st.ac /\ nxt = st.nxt /\ sub = st.m.s /\ nsub = st.m.n
PickOf(p) ==
        /\ verdict = "run" /\ p \in nxt /\ \A o \in nxt : Cardinality(p[2]) <= Cardinality(o[2])
        /\ LET succ == {<<e[3], FPost(B, p[2], e[2])>> : e \in {x \in A.delta : x[1] = p[1]}}
               bad == \E x \in succ : x[1] \in A.fin /\ x[2] \cap B.fin = {}
               st == AddAll([ac |-> ac, nxt |-> nxt \ {p}, m |-> [s |-> sub, n |-> nsub]], succ)
           IN IF bad THEN verdict' = "F" /\ UNCHANGED <<ac, nxt, sub, nsub>>
              ELSE /\ ac' = st.ac /\ nxt' = st.nxt /\ sub' = st.m.s /\ nsub' = st.m.n /\ UNCHANGED verdict
        /\ UNCHANGED <<A, B>>
Pick == \E p \in nxt : PickOf(p)
Finish == verdict = "run" /\ nxt = {} /\ verdict' = "T" /\ UNCHANGED <<A, B, ac, nxt, sub, nsub>>
Next == Pick \/ Finish
Spec == Init /\ [][Next]_vars /\ WF_vars(Next)
Exact == verdict \in {"T", "F"} => ((verdict = "T") = FAIncl(A, B))
MemoTrue == /\ \A p \in sub : p[1] \subseteq p[2]
            /\ \A p \in nsub : ~(p[1] \subseteq p[2])
Terminates == <>(verdict # "run")
ExactK == Exact \/ (PrintT(<<"KILLER", ToJson([A |-> A, B |-> B])>>) /\ FALSE)
=============================================================================
