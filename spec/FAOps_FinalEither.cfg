CONSTANTS NQ = 2  MaxE = 2  Ops = {"isect"}
  StartEither = FALSE  FinalEither = TRUE  NoFinalStart = FALSE  SymbolOfLeft = FALSE  KeepStartFinal = FALSE  ReachFromFinal = FALSE
SPECIFICATION Spec
INVARIANT PostK
CHECK_DEADLOCK FALSE
