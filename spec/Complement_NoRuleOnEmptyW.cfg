CONSTANTS MaxR = 3  NQ = 2  UsePre = FALSE  LeafAlways = FALSE  NoRuleOnEmptyW = TRUE  AllPositions = FALSE  KeepMinimal = FALSE
INIT Init
NEXT Next
INVARIANT PostK
CHECK_DEADLOCK FALSE
