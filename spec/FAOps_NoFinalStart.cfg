CONSTANTS NQ = 2  MaxE = 3  Ops = {"unreach", "useless", "reverse", "witness"}
  StartEither = FALSE  FinalEither = FALSE  NoFinalStart = TRUE  SymbolOfLeft = FALSE  KeepStartFinal = FALSE  ReachFromFinal = FALSE
SPECIFICATION Spec
INVARIANT PostK
CHECK_DEADLOCK FALSE
