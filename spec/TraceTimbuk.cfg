INIT Init
NEXT Next
INVARIANT EventOK
CHECK_DEADLOCK FALSE
