--------------------------------- MODULE Trim ---------------------------------
(***************************************************************************)
(* Layer 2 (C03): RemoveUnreachableStates (explicit_tree_unreach.cc) and   *)
(* RemoveUselessStates (explicit_tree_useless.cc) as work-list state       *)
(* machines, with the bookkeeping exactly as written:                      *)
(*  unreach: reach starts with the final states; Pop takes ANY state from  *)
(*           the work list and adds the children of its rules; at the end  *)
(*           the input is returned unchanged iff every rule-owning state   *)
(*           is reachable, otherwise the clusters of the reachable states; *)
(*  useless: every non-leaf rule waits for its DISTINCT children           *)
(*           (`remaining` is incremented once per distinct child and       *)
(*           decremented once per fired rule - so it only reaches 0 when   *)
(*           all rules fired and each has one distinct child); Pop takes   *)
(*           ANY productive state, rules whose children are all productive *)
(*           fire; the result keeps the fired rules (or the whole table    *)
(*           when remaining = 0), the productive final states, and is      *)
(*           passed through RemoveUnreachableStates.                       *)
(* Checked for every automaton of the bound and every work-list order:     *)
(*   UnreachPost, UselessPost (the contracts of TraceTA).                  *)
(* Mutants: SizeCompare (the size comparison the code had before its       *)
(* repair, D3), ArityDecrement (remaining decremented by the arity, seeded *)
(* change C03-m1), EarlyExit (the unreach loop stops once |reach| equals   *)
(* the number of rule owners, seeded change C03-m2).                       *)
(***************************************************************************)
EXTENDS TA, TLC, Json, FiniteSetsExt
CONSTANTS MaxR, NQ, SizeCompare, ArityDecrement, EarlyExit
Alpha == {<<"a", 0>>, <<"b", 0>>, <<"g", 1>>, <<"f", 2>>}
Tuples(Q, n) == IF n = 0 THEN {<<>>} ELSE IF n = 1 THEN {<<q>> : q \in Q} ELSE {<<p, q>> : p \in Q, q \in Q}
AllRules(Q) == UNION {{<<s[1], k, q>> : k \in Tuples(Q, s[2]), q \in Q} : s \in Alpha}
Auts(Q) == {[fin |-> F, rules |-> R] : F \in SUBSET Q, R \in UNION {kSubset(k, AllRules(Q)) : k \in 0..MaxR}}
Owners(X) == {r[3] : r \in X.rules}

\* RemoveUnreachableStates as a function (used at the end of RemoveUselessStates; any work-list order gives the same reach set)
UnreachF(X) ==
  LET reach == TopLfp(X, X.fin)
      same == IF SizeCompare THEN Cardinality(reach) = Cardinality(Owners(X)) ELSE Owners(X) \subseteq reach
  IN IF same THEN X ELSE [fin |-> X.fin, rules |-> {r \in X.rules : r[3] \in reach}]

VARIABLES A, mode, reach, work, pend, fired, remaining, out
vars == <<A, mode, reach, work, pend, fired, remaining, out>>
NonLeaf(X) == {r \in X.rules : Len(r[2]) > 0}

\* the bookkeeping both functions set up before their loops
Begin(X, m) ==
  IF m = "unreach"
  THEN [reach |-> X.fin, work |-> X.fin, pend |-> <<>>, fired |-> {}, remaining |-> 0]
  ELSE LET leaves == {x \in X.rules : Len(x[2]) = 0} IN
       [reach |-> {r[3] : r \in leaves}, work |-> {r[3] : r \in leaves},
        pend |-> [r \in NonLeaf(X) |-> Kids(r)], fired |-> leaves,
        remaining |-> LET F[S \in SUBSET NonLeaf(X)] == IF S = {} THEN 0 ELSE LET r == CHOOSE x \in S : TRUE IN Cardinality(Kids(r)) + F[S \ {r}]
                      IN F[NonLeaf(X)]]
Init ==
  /\ A \in Auts(0..(NQ - 1)) /\ mode \in {"unreach", "useless"} /\ out = <<>>
  /\ LET b == Begin(A, mode) IN reach = b.reach /\ work = b.work /\ pend = b.pend /\ fired = b.fired /\ remaining = b.remaining

PopUnreachOf(q) ==
  /\ mode = "unreach" /\ out = <<>> /\ q \in work
  /\ ~(EarlyExit /\ Cardinality(reach) >= Cardinality(Owners(A)))
  /\ LET new == UNION {Kids(r) : r \in RulesOf(A, q)} \ reach IN
       /\ reach' = reach \cup new /\ work' = (work \ {q}) \cup new
  /\ UNCHANGED <<A, mode, pend, fired, remaining, out>>
PopUnreach == \E q \in work : PopUnreachOf(q)
FinishUnreach ==
  /\ mode = "unreach" /\ out = <<>>
  /\ work = {} \/ (EarlyExit /\ Cardinality(reach) >= Cardinality(Owners(A)))
  /\ LET same == IF SizeCompare THEN Cardinality(reach) = Cardinality(Owners(A)) ELSE Owners(A) \subseteq reach
     IN out' = IF same THEN A ELSE [fin |-> A.fin, rules |-> {r \in A.rules : r[3] \in reach}]
  /\ UNCHANGED <<A, mode, reach, work, pend, fired, remaining>>

PopUselessOf(q) ==
  /\ mode = "useless" /\ out = <<>> /\ q \in work
  /\ LET p2 == [r \in DOMAIN pend |-> pend[r] \ {q}]
           now == {r \in DOMAIN pend : q \in pend[r] /\ p2[r] = {}}          \* rules whose last missing child was q
           dec == IF ArityDecrement
                  THEN LET F[S \in SUBSET now] == IF S = {} THEN 0 ELSE LET r == CHOOSE x \in S : TRUE IN Len(r[2]) + F[S \ {r}] IN F[now]
                  ELSE Cardinality(now)
           new == {r[3] : r \in now} \ reach
       IN /\ pend' = p2 /\ fired' = fired \cup now
          /\ remaining' = IF dec > remaining THEN 1000 + dec - remaining ELSE remaining - dec      \* the unsigned counter wraps: never 0 again
          /\ reach' = reach \cup new /\ work' = (work \ {q}) \cup new
  /\ UNCHANGED <<A, mode, out>>
PopUseless == \E q \in work : PopUselessOf(q)
FinishUseless ==
  /\ mode = "useless" /\ out = <<>> /\ work = {}
  /\ LET res == [fin |-> A.fin \cap reach, rules |-> IF remaining = 0 THEN A.rules ELSE fired]
     IN out' = UnreachF(res)
  /\ UNCHANGED <<A, mode, reach, work, pend, fired, remaining>>
Next == PopUnreach \/ FinishUnreach \/ PopUseless \/ FinishUseless
Spec == Init /\ [][Next]_vars

Done == out # <<>>
UnreachPost == (Done /\ mode = "unreach") => (LangEq(out, A) /\ States(out) \subseteq TopReach(out))
UselessPost == (Done /\ mode = "useless") => (LangEq(out, A) /\ IsTrim(out))
PostK == (UnreachPost /\ UselessPost) \/ (PrintT(<<"KILLER", ToJson([A |-> A, mode |-> mode])>>) /\ FALSE)
=============================================================================
