CONSTANTS NB = 3  MaxEB = 3  AKind = "four"  Order = "depth"  EmptyUncached = TRUE  MemoBySetOnly = FALSE  KeepPopped = FALSE  InitNoFinalCheck = TRUE  DropHalfEmpty = FALSE
SPECIFICATION Spec
INVARIANT ExactK
CHECK_DEADLOCK FALSE
