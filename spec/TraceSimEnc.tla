----------------------------- MODULE TraceSimEnc -----------------------------
(***************************************************************************)
(* Binding of the Layer-2 model SimEnc to the code.  Every line of TRACE   *)
(* is one run of TranslateDownward / TranslateUpward (instantiated as      *)
(* explicit_tree_sim.cc does) on an automaton with states 0..n-1: the      *)
(* numbering idx the weak translator chose, the LTS read back through      *)
(* ExplicitLTS::post, for "up" the initial partition and block relation,   *)
(* and the relation the engine computed on it.  Judged:                    *)
(*  structure  the logged LTS is the model's encoding DownEncOn / UpEncOn  *)
(*             of A under idx, up to the numbering of labels and of the    *)
(*             auxiliary states (decoded back into rules for "down";       *)
(*             per-label signatures with environment bags for "up");       *)
(*  encoding   the greatest simulation of the LOGGED system inside the     *)
(*             LOGGED initial relation, read through idx, is TA!DownSim /  *)
(*             TA!UpSim of A;                                              *)
(*  engine     the relation the code computed on that system is that       *)
(*             greatest simulation.                                        *)
(* Events are independent; TLC runs with -continue, failing lines are      *)
(* printed as <<"VFAIL", line, reasons>>.  Evidence only (DESIGN 2.7): the *)
(* API-level contract of C04 is TraceTA!SimFails.                          *)
(***************************************************************************)
EXTENDS SimEnc, IOUtils, Sequences

Tr == ndJsonDeserialize(IOEnv.TRACE)
Rng(f) == {f[x] : x \in DOMAIN f}
ToAut(j) == [fin |-> Rng(j.fin), rules |-> Rng(j.rules)]
PairsToFun(ps) == [k \in {p[1] : p \in Rng(ps)} |-> (CHOOSE p \in Rng(ps) : p[1] = k)[2]]
IsFunctional(ps) == \A p \in Rng(ps) : \A s \in Rng(ps) : p[1] = s[1] => p[2] = s[2]
Why(b, s) == IF b THEN {} ELSE {s}
Bag(S, sig(_)) == [s \in {sig(v) : v \in S} |-> Cardinality({v \in S : sig(v) = s})]

Common(e) ==
  LET AA == ToAut(e.A)  Q == States(AA)  ix == PairsToFun(e.res.idx)
  IN [A |-> AA, Q |-> Q, idx |-> ix,
      idxOK |-> IsFunctional(e.res.idx) /\ DOMAIN ix = Q
                /\ \A x \in Q : \A y \in Q : ix[x] = ix[y] => x = y,
      E |-> {<<x[1], x[2], x[3]>> : x \in Rng(e.res.lts.edges)},
      S |-> 0..(e.res.lts.n - 1),
      nsym |-> Cardinality(Syms(AA))]

DownFails(e) ==
  LET c == Common(e)  AA == c.A  Q == c.Q  ix == c.idx  E == c.E  n == e.n  nsym == c.nsym
  IN IF ~c.idxOK \/ ~(Rng(ix) \subseteq 0..(n - 1)) THEN {"ix-not-an-injection-of-the-states"} ELSE
  LET inv == [i \in Rng(ix) |-> CHOOSE q \in Q : ix[q] = i]
      G == Gfp(E, c.S \X c.S)
      out(t) == {x \in E : x[1] = t}
      auxs == {x[3] : x \in {y \in E : y[1] < n /\ y[3] >= n}}
      auxOK(t) == LET k == Cardinality(out(t)) IN
                    /\ {x[2] : x \in out(t)} = nsym..(nsym + k - 1)
                    /\ \A x \in out(t) : x[3] \in Rng(ix)
      kidsOf(t) == [i \in 1..Cardinality(out(t)) |-> inv[(CHOOSE x \in out(t) : x[2] = nsym + i - 1)[3]]]
      fromQ == {x \in E : x[1] < n}
      shapeOK == /\ \A x \in fromQ : x[1] \in Rng(ix) /\ x[2] < nsym /\ (x[3] < n => x[3] \in Rng(ix))
                 /\ \A t \in auxs : auxOK(t)
                 /\ \A x \in E : x[1] >= n => x[1] \in auxs
                 /\ e.res.lts.n = n + Cardinality(auxs)
      dec == {<<x[2], IF x[3] < n THEN <<inv[x[3]]>> ELSE kidsOf(x[3]), inv[x[1]]>> : x \in fromQ}
      groupsL == {{<<r[2], r[3]>> : r \in {d \in dec : d[1] = a}} : a \in {d[1] : d \in dec}}
      groupsA == {{<<r[2], r[3]>> : r \in {x \in AA.rules : RSym(x) = s}} : s \in Syms(AA)}
      \* the model's own encoding has the same number of states and edges
      M == DownEncOn(AA, ix, Q)
  IN IF ~shapeOK THEN {"lts-shape"} ELSE
     Why(groupsL = groupsA /\ Cardinality({d[1] : d \in dec}) = nsym, "lts-does-not-decode-to-the-automaton")
     \cup Why(Cardinality(E) = Cardinality(M.edges) /\ Cardinality(auxs) = Cardinality(M.states) - Cardinality(Q)
              /\ \A t \in auxs : \A u \in auxs : kidsOf(t) = kidsOf(u) => t = u, "lts-not-the-model-encoding")
     \cup Why({p \in Q \X Q : <<ix[p[1]], ix[p[2]]>> \in G} = DownSim(AA), "encoding")
     \cup Why(\A q \in Q : \A r \in Q : e.res.m[q + 1][r + 1] = (IF <<ix[q], ix[r]>> \in G THEN 1 ELSE 0), "engine")

UpFails(e) ==
  LET c == Common(e)  AA == c.A  Q == c.Q  ix == c.idx  E == c.E  nsym == c.nsym  S == c.S
      nc == Cardinality({r[3] : r \in AA.rules})
  IN IF ~(IsTrim(AA) /\ Q = RuleStates(AA) /\ Q # {}) THEN {}            \* outside the documented domain: vacuous
     ELSE IF ~c.idxOK \/ Rng(ix) # 0..(nc - 1) THEN {"ix-not-a-bijection-onto-the-clusters"} ELSE
  LET inv == [i \in Rng(ix) |-> CHOOSE q \in Q : ix[q] = i]
      leaf == nc
      part == e.res.part  rel == e.res.rel
      partOK == /\ \A x \in S : Cardinality({i \in 1..Len(part) : x \in Rng(part[i])}) = 1
                /\ Len(rel) = Len(part)
      blockOf(x) == CHOOSE i \in 1..Len(part) : x \in Rng(part[i])
      R0 == {p \in S \X S : rel[blockOf(p[1])][blockOf(p[2])] = 1}
      G == Gfp(E, R0)
      M == UpEncOn(AA, ix, Q)
      envsL == {x \in S : x > leaf}
      envOK(v) == /\ Cardinality({x \in E : x[1] = v}) = 1
                  /\ \A x \in E : x[1] = v => x[2] < nsym /\ x[3] < nc
                  /\ \A x \in E : x[3] = v => x[2] = nsym /\ x[1] < nc
      shapeOK == /\ \A v \in envsL : envOK(v)
                 /\ \A x \in E : x[1] <= leaf /\ x[3] <= leaf => x[2] < nsym /\ x[3] < nc
                 /\ \A x \in E : x[3] # leaf
                 /\ e.res.lts.n = nc + 1 + Cardinality(M.envs)
      outOf(v) == CHOOSE x \in E : x[1] = v
      sigL(v) == <<{inv[y[1]] : y \in {z \in E : z[3] = v}}, inv[outOf(v)[3]]>>
      grpL(a) == <<{inv[x[3]] : x \in {y \in E : y[1] = leaf /\ y[2] = a}},
                   {<<inv[x[1]], inv[x[3]]>> : x \in {y \in E : y[1] < nc /\ y[2] = a}},
                   Bag({v \in envsL : outOf(v)[2] = a}, sigL)>>
      sigM(k) == <<{r[2][k[3]] : r \in {x \in AA.rules : Len(x[2]) >= 2 /\ k[3] <= Len(x[2]) /\ EnvKey(EnvOf(x, k[3])) = k}}, k[5]>>
      grpM(s) == <<{r[3] : r \in {x \in AA.rules : RSym(x) = s /\ Len(x[2]) = 0}},
                   {<<r[2][1], r[3]>> : r \in {x \in AA.rules : RSym(x) = s /\ Len(x[2]) = 1}},
                   Bag({k \in M.envs : k[4] = s}, sigM)>>
      QI == {ix[q] : q \in Q}
      initM == {<<p[1][2], p[2][2]>> : p \in {x \in M.init : x[1][1] = "q" /\ x[2][1] = "q"}}
  IN IF ~partOK THEN {"partition"} ELSE IF ~shapeOK THEN {"lts-shape"} ELSE
     Why({grpL(a) : a \in 0..(nsym - 1)} = {grpM(s) : s \in Syms(AA)}, "lts-not-the-model-encoding")
     \cup Why({p \in R0 : p[1] \in QI /\ p[2] \in QI} = initM, "initial-relation-on-states")
     \cup Why(\A p \in R0 : (p[1] = leaf \/ p[2] = leaf) => p[1] = p[2], "initial-relation-leaf")
     \cup Why(Cardinality({p \in R0 : p[1] > leaf /\ p[2] > leaf})
               = Cardinality({p \in M.init : p[1][1] = "e" /\ p[2][1] = "e"}), "initial-relation-on-environments")
     \cup Why(\A p \in R0 : (p[1] > leaf) = (p[2] > leaf), "initial-relation-mixes-kinds")
     \cup Why({p \in Q \X Q : <<ix[p[1]], ix[p[2]]>> \in G} = UpSim(AA), "encoding")
     \cup Why(\A q \in Q : \A r \in Q : e.res.m[q + 1][r + 1] = (IF <<ix[q], ix[r]>> \in G THEN 1 ELSE 0), "engine")

Fails(e) ==
  IF e.outcome # "ok" THEN {"outcome:" \o e.outcome}
  ELSE IF e.op = "simenc" THEN (IF e.dir = "up" THEN UpFails(e) ELSE DownFails(e))
  ELSE {"unknown-op"}

VARIABLE l
TInit == l \in 1..Len(Tr) /\ A = EmptyAut /\ idx = <<>> /\ down = {} /\ up = {} /\ done = FALSE
TNext == UNCHANGED <<l, vars>>
EventOK == LET f == Fails(Tr[l]) IN f = {} \/ (PrintT(<<"VFAIL", l, f>>) /\ FALSE)
=============================================================================
