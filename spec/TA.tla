--------------------------------- MODULE TA ---------------------------------
(***************************************************************************)
(* Layer 0: declarative semantics of finite (bottom-up) tree automata as   *)
(* libvata's explicit encoding represents them, and the exact finite       *)
(* characterisations every contract of Layer 1 refers to.                  *)
(*                                                                         *)
(* automaton  == [fin |-> set of states, rules |-> set of rules]           *)
(* rule       == <<sym, kids, parent>>   sym a string, kids a sequence     *)
(* The rank of a symbol occurrence is Len(kids); "a" used with two ranks   *)
(* is two different ranked symbols (libvata: StringRank(name, rank)).      *)
(***************************************************************************)
EXTENDS Naturals, Sequences, FiniteSets

Kids(r)  == {r[2][i] : i \in 1..Len(r[2])}
RSym(r)  == <<r[1], Len(r[2])>>                    \* the ranked symbol of a rule
States(A) == A.fin \cup {r[3] : r \in A.rules} \cup UNION {Kids(r) : r \in A.rules}
RuleStates(A) == {r[3] : r \in A.rules} \cup UNION {Kids(r) : r \in A.rules}
RulesOf(A, q) == {r \in A.rules : r[3] = q}
Syms(A) == {RSym(r) : r \in A.rules}
EmptyAut == [fin |-> {}, rules |-> {}]

(***************************************************************************)
(* Productive / top-down reachable / useful states (least fixpoints).      *)
(***************************************************************************)
RECURSIVE ProdLfp(_, _)
ProdLfp(A, P) ==
  LET P2 == P \cup {r[3] : r \in {x \in A.rules : Kids(x) \subseteq P}}
  IN IF P2 = P THEN P ELSE ProdLfp(A, P2)
Productive(A) == ProdLfp(A, {})

RECURSIVE TopLfp(_, _)
TopLfp(A, T) ==
  LET T2 == T \cup UNION {Kids(r) : r \in {x \in A.rules : x[3] \in T}}
  IN IF T2 = T THEN T ELSE TopLfp(A, T2)
TopReach(A) == TopLfp(A, A.fin)

RestrictTo(A, Q) == [fin |-> A.fin \cap Q,
                   rules |-> {r \in A.rules : r[3] \in Q /\ Kids(r) \subseteq Q}]
\* the trimmed automaton: productive states only, then those reachable from a final state
Trim(A) == LET A1 == RestrictTo(A, Productive(A)) IN RestrictTo(A1, TopReach(A1))
UsefulStates(A) == States(Trim(A))
IsTrim(A) == /\ A.rules = Trim(A).rules
             /\ States(A) \subseteq UsefulStates(A)
Empty(A) == A.fin \cap Productive(A) = {}

(***************************************************************************)
(* Language inclusion by the bottom-up macro-state fixpoint.               *)
(* BUPairs(A,B) = least set R of <<q, S>> such that for every rule         *)
(* a(q1..qn)->q of A and <<qi,Si>> in R:  <<q, post_B(a, S1..Sn)>> in R.   *)
(* <<q,S>> in BUPairs iff some tree t has q in reach_A(t) and              *)
(* S = reach_B(t).   L(A) <= L(B) iff every pair with q final has S final. *)
(***************************************************************************)
PostB(B, s, Ss) ==
  {r[3] : r \in {x \in B.rules : /\ x[1] = s /\ Len(x[2]) = Len(Ss)
                                 /\ \A i \in 1..Len(Ss) : x[2][i] \in Ss[i]}}
RECURSIVE MacroChoices(_, _)
MacroChoices(kids, R) ==
  IF kids = <<>> THEN {<<>>}
  ELSE LET hd == {p \in R : p[1] = Head(kids)}
           tl == MacroChoices(Tail(kids), R)
       IN UNION {{<<p[2]>> \o c : c \in tl} : p \in hd}
StepPairs(A, B, R) ==
  R \cup UNION {{<<r[3], PostB(B, r[1], c)>> : c \in MacroChoices(r[2], R)} : r \in A.rules}
RECURSIVE PairLfp(_, _, _)
PairLfp(A, B, R) == LET R2 == StepPairs(A, B, R) IN IF R2 = R THEN R ELSE PairLfp(A, B, R2)
BUPairs(A, B) == PairLfp(A, B, {})
Incl(A, B) == \A p \in BUPairs(A, B) : p[1] \in A.fin => p[2] \cap B.fin # {}
LangEq(A, B) == Incl(A, B) /\ Incl(B, A)
AtState(A, q) == [fin |-> {q}, rules |-> A.rules]
StateIncl(A, p, B, q) == Incl(AtState(A, p), AtState(B, q))
StateLangEq(A, p, B, q) == StateIncl(A, p, B, q) /\ StateIncl(B, q, A, p)

(***************************************************************************)
(* Constructions.                                                          *)
(***************************************************************************)
\* union of automata with disjoint state sets
DUnion(A, B) == [fin |-> A.fin \cup B.fin, rules |-> A.rules \cup B.rules]
\* rename states by a function (or any operator applied pointwise)
MapSeq(f, s) == [i \in 1..Len(s) |-> f[s[i]]]
Image(A, f) == [fin |-> {f[q] : q \in A.fin},
                rules |-> {<<r[1], MapSeq(f, r[2]), f[r[3]]>> : r \in A.rules}]
\* tag the states so that two automata become disjoint
Tag(A, t) == [fin |-> {<<t, q>> : q \in A.fin},
              rules |-> {<<r[1], [i \in 1..Len(r[2]) |-> <<t, r[2][i]>>], <<t, r[3]>>>> : r \in A.rules}]
Union(A, B) == DUnion(Tag(A, 1), Tag(B, 2))
Prod(A, B) ==
  [fin |-> A.fin \X B.fin,
   rules |-> UNION {{<<x[1], [i \in 1..Len(x[2]) |-> <<x[2][i], y[2][i]>>], <<x[3], y[3]>>>> :
                       y \in {z \in B.rules : z[1] = x[1] /\ Len(z[2]) = Len(x[2])}} : x \in A.rules}]
\* the one-state automaton accepting every tree over the ranked symbols S (pairs <<name, rank>>)
Top(S) == [fin |-> {"top"},
           rules |-> {<<s[1], [i \in 1..s[2] |-> "top"], "top">> : s \in S}]

(***************************************************************************)
(* Simulations as greatest fixpoints (C04).  <<q,r>> in Sim: r simulates q *)
(***************************************************************************)
DownOK(A, R, q, r) ==
  \A x \in RulesOf(A, q) : \E y \in RulesOf(A, r) :
     /\ y[1] = x[1] /\ Len(y[2]) = Len(x[2])
     /\ \A i \in 1..Len(x[2]) : <<x[2][i], y[2][i]>> \in R
RECURSIVE DownGfp(_, _)
DownGfp(A, R) == LET R2 == {p \in R : DownOK(A, R, p[1], p[2])}
                 IN IF R2 = R THEN R ELSE DownGfp(A, R2)
DownSimOn(A, Q) == DownGfp(A, Q \X Q)
DownSim(A) == DownSimOn(A, States(A))

\* all <<rule, position>> where q occurs as a child
Uses(A, q) == UNION {{<<r, i>> : i \in {j \in 1..Len(r[2]) : r[2][j] = q}} : r \in A.rules}
UpAnswer(A, R, x, i, r) ==
  \E y \in A.rules : /\ y[1] = x[1] /\ Len(y[2]) = Len(x[2]) /\ y[2][i] = r
                     /\ \A j \in 1..Len(x[2]) : j # i => y[2][j] = x[2][j]
                     /\ <<x[3], y[3]>> \in R
UpOK(A, R, q, r) == \A u \in Uses(A, q) : UpAnswer(A, R, u[1], u[2], r)
RECURSIVE UpGfp(_, _)
UpGfp(A, R) == LET R2 == {p \in R : UpOK(A, R, p[1], p[2])}
               IN IF R2 = R THEN R ELSE UpGfp(A, R2)
UpSimOn(A, Q) == UpGfp(A, {p \in Q \X Q : p[1] \in A.fin => p[2] \in A.fin})
UpSim(A) == UpSimOn(A, States(A))

IsReflexiveOn(R, Q) == \A q \in Q : <<q, q>> \in R
IsTransitive(R) == \A p \in R : \A s \in R : p[2] = s[1] => <<p[1], s[2]>> \in R

(***************************************************************************)
(* Naive bounded semantics: only used to cross-check the characterisations *)
(* above (TAcheck.tla).  Trees are <<sym, <<subtrees>>>>.                  *)
(***************************************************************************)
RECURSIVE TreesUpTo(_, _)
TreesUpTo(S, d) ==          \* S: set of <<name, rank>>, rank <= 2
  IF d = 0 THEN {}
  ELSE LET T == TreesUpTo(S, d - 1) IN
       UNION {IF s[2] = 0 THEN {<<s[1], <<>>>>}
              ELSE IF s[2] = 1 THEN {<<s[1], <<t>>>> : t \in T}
              ELSE {<<s[1], <<t, u>>>> : t \in T, u \in T} : s \in S}
RECURSIVE ReachBy(_, _)
ReachBy(A, t) ==            \* the set of states A can label the root of t with
  LET sub == [i \in 1..Len(t[2]) |-> ReachBy(A, t[2][i])]
  IN {r[3] : r \in {x \in A.rules : /\ x[1] = t[1] /\ Len(x[2]) = Len(t[2])
                                    /\ \A i \in 1..Len(t[2]) : x[2][i] \in sub[i]}}
Accepts(A, t) == ReachBy(A, t) \cap A.fin # {}
=============================================================================
