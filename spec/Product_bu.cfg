CONSTANTS MaxRA = 2  MaxRB = 2  NQ = 2  Mode = "bu"  SelfLoopAlways = FALSE  FinalAtLeavesOnly = FALSE  NoRepush = FALSE  FirstFinalOnly = FALSE  PushNever = FALSE
SPECIFICATION Spec
INVARIANT IsectPost
PROPERTY Terminates
CHECK_DEADLOCK FALSE
