---- MODULE InclUp_TTrace_1790423590 ----
EXTENDS Sequences, TLCExt, Toolbox, InclUp, Naturals, TLC

_expression ==
    LET InclUp_TEExpression == INSTANCE InclUp_TEExpression
    IN InclUp_TEExpression!expression
----

_trace ==
    LET InclUp_TETrace == INSTANCE InclUp_TETrace
    IN InclUp_TETrace!trace
----

_inv ==
    ~(
        TLCGet("level") = Len(_TETrace)
        /\
        next = ({})
        /\
        todo = ({})
        /\
        A = ([fin |-> {0}, rules |-> {<<"b", <<>>, 0>>}])
        /\
        cur = (<<>>)
        /\
        processed = ({<<0, {}>>})
        /\
        B = ([fin |-> {2}, rules |-> {<<"a", <<>>, 2>>}])
        /\
        verdict = ("T")
    )
----

_init ==
    /\ A = _TETrace[1].A
    /\ B = _TETrace[1].B
    /\ cur = _TETrace[1].cur
    /\ next = _TETrace[1].next
    /\ processed = _TETrace[1].processed
    /\ todo = _TETrace[1].todo
    /\ verdict = _TETrace[1].verdict
----

_next ==
    /\ \E i,j \in DOMAIN _TETrace:
        /\ \/ /\ j = i + 1
              /\ i = TLCGet("level")
        /\ A  = _TETrace[i].A
        /\ A' = _TETrace[j].A
        /\ B  = _TETrace[i].B
        /\ B' = _TETrace[j].B
        /\ cur  = _TETrace[i].cur
        /\ cur' = _TETrace[j].cur
        /\ next  = _TETrace[i].next
        /\ next' = _TETrace[j].next
        /\ processed  = _TETrace[i].processed
        /\ processed' = _TETrace[j].processed
        /\ todo  = _TETrace[i].todo
        /\ todo' = _TETrace[j].todo
        /\ verdict  = _TETrace[i].verdict
        /\ verdict' = _TETrace[j].verdict

\* Uncomment the ASSUME below to write the states of the error trace
\* to the given file in Json format. Note that you can pass any tuple
\* to `JsonSerialize`. For example, a sub-sequence of _TETrace.
    \* ASSUME
    \*     LET J == INSTANCE Json
    \*         IN J!JsonSerialize("InclUp_TTrace_1790423590.json", _TETrace)

=============================================================================

 Note that you can extract this module `InclUp_TEExpression`
  to a dedicated file to reuse `expression` (the module in the 
  dedicated `InclUp_TEExpression.tla` file takes precedence 
  over the module `InclUp_TEExpression` below).

---- MODULE InclUp_TEExpression ----
EXTENDS Sequences, TLCExt, Toolbox, InclUp, Naturals, TLC

expression == 
    [
        \* To hide variables of the `InclUp` spec from the error trace,
        \* remove the variables below.  The trace will be written in the order
        \* of the fields of this record.
        A |-> A
        ,B |-> B
        ,cur |-> cur
        ,next |-> next
        ,processed |-> processed
        ,todo |-> todo
        ,verdict |-> verdict
        
        \* Put additional constant-, state-, and action-level expressions here:
        \* ,_stateNumber |-> _TEPosition
        \* ,_AUnchanged |-> A = A'
        
        \* Format the `A` variable as Json value.
        \* ,_AJson |->
        \*     LET J == INSTANCE Json
        \*     IN J!ToJson(A)
        
        \* Lastly, you may build expressions over arbitrary sets of states by
        \* leveraging the _TETrace operator.  For example, this is how to
        \* count the number of times a spec variable changed up to the current
        \* state in the trace.
        \* ,_AModCount |->
        \*     LET F[s \in DOMAIN _TETrace] ==
        \*         IF s = 1 THEN 0
        \*         ELSE IF _TETrace[s].A # _TETrace[s-1].A
        \*             THEN 1 + F[s-1] ELSE F[s-1]
        \*     IN F[_TEPosition - 1]
    ]

=============================================================================



Parsing and semantic processing can take forever if the trace below is long.
 In this case, it is advised to uncomment the module below to deserialize the
 trace from a generated binary file.

\*
\*---- MODULE InclUp_TETrace ----
\*EXTENDS IOUtils, InclUp, TLC
\*
\*trace == IODeserialize("InclUp_TTrace_1790423590.bin", TRUE)
\*
\*=============================================================================
\*

---- MODULE InclUp_TETrace ----
EXTENDS InclUp, TLC

trace == 
    <<
    ([next |-> {<<0, {}>>},todo |-> {},A |-> [fin |-> {0}, rules |-> {<<"b", <<>>, 0>>}],cur |-> <<>>,processed |-> {<<0, {}>>},B |-> [fin |-> {2}, rules |-> {<<"a", <<>>, 2>>}],verdict |-> "run"]),
    ([next |-> {},todo |-> {},A |-> [fin |-> {0}, rules |-> {<<"b", <<>>, 0>>}],cur |-> <<0, {}>>,processed |-> {<<0, {}>>},B |-> [fin |-> {2}, rules |-> {<<"a", <<>>, 2>>}],verdict |-> "run"]),
    ([next |-> {},todo |-> {},A |-> [fin |-> {0}, rules |-> {<<"b", <<>>, 0>>}],cur |-> <<>>,processed |-> {<<0, {}>>},B |-> [fin |-> {2}, rules |-> {<<"a", <<>>, 2>>}],verdict |-> "run"]),
    ([next |-> {},todo |-> {},A |-> [fin |-> {0}, rules |-> {<<"b", <<>>, 0>>}],cur |-> <<>>,processed |-> {<<0, {}>>},B |-> [fin |-> {2}, rules |-> {<<"a", <<>>, 2>>}],verdict |-> "T"])
    >>
----


=============================================================================

---- CONFIG InclUp_TTrace_1790423590 ----
CONSTANTS
    MaxR = 3
    AlphaName = "abf"
    RevSubsume = FALSE
    NoFinalCheck = TRUE
    UnionChildren = FALSE
    FirstPosOnly = FALSE
    BFamily = "all2"

INVARIANT
    _inv

CHECK_DEADLOCK
    \* CHECK_DEADLOCK off because of PROPERTY or INVARIANT above.
    FALSE

INIT
    _init

NEXT
    _next

CONSTANT
    _TETrace <- _trace

ALIAS
    _expression
=============================================================================
\* Generated on Sat Sep 26 11:56:45 UTC 2026