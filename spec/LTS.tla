--------------------------------- MODULE LTS ---------------------------------
(***************************************************************************)
(* Layer 0 for C16: labelled transition systems and the greatest           *)
(* simulation inside an initial preorder.                                  *)
(*   lts == [n |-> number of states 0..n-1, edges |-> set of <<q,a,r>>]    *)
(* <<q, r>> in a simulation R: every q -a-> q' is answered by some         *)
(* r -a-> r' with <<q', r'>> in R  ("r simulates q"; get(q,r) in the code).*)
(***************************************************************************)
EXTENDS Naturals, Sequences, FiniteSets

LStates(L) == 0..(L.n - 1)
SimStepOK(L, R, q, r) ==
  \A e \in {x \in L.edges : x[1] = q} :
     \E f \in L.edges : f[1] = r /\ f[2] = e[2] /\ <<e[3], f[3]>> \in R
RECURSIVE SimGfp(_, _)
SimGfp(L, R) == LET R2 == {p \in R : SimStepOK(L, R, p[1], p[2])}
                IN IF R2 = R THEN R ELSE SimGfp(L, R2)
\* greatest simulation contained in R0
GSimIn(L, R0) == SimGfp(L, R0)
\* without a partition: the greatest simulation preorder of the system
GSimAll(L) == GSimIn(L, LStates(L) \X LStates(L))

\* partition: sequence of sequences of states; rel: matrix over block indices (1 = related)
BlockOf(part, q) == CHOOSE i \in 1..Len(part) : \E k \in 1..Len(part[i]) : part[i][k] = q
Lifted(L, part, rel) ==
  {p \in LStates(L) \X LStates(L) : rel[BlockOf(part, p[1])][BlockOf(part, p[2])] = 1}
GSim(L, part, rel) == GSimIn(L, Lifted(L, part, rel))

IsPartitionOf(part, n) ==
  /\ \A i \in 1..Len(part) : Len(part[i]) > 0
  /\ \A q \in 0..(n - 1) : Cardinality({<<i, k>> \in (1..Len(part)) \X (1..n) : k <= Len(part[i]) /\ part[i][k] = q}) = 1
IsPreorderMatrix(rel) ==
  LET m == Len(rel) IN
  /\ \A i \in 1..m : rel[i][i] = 1
  /\ \A i \in 1..m : \A j \in 1..m : \A k \in 1..m : (rel[i][j] = 1 /\ rel[j][k] = 1) => rel[i][k] = 1
=============================================================================
