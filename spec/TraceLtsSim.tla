----------------------------- MODULE TraceLtsSim -----------------------------
(***************************************************************************)
(* Step-level binding of the Layer-2 model LtsSim to the code: executions  *)
(* of the real simulation engine, recorded through the guarded hook in     *)
(* src/explicit_lts_sim.cc - Start (the input as the engine sees it) and   *)
(* one Process per queue element handled (the block's states, the label,   *)
(* the remove list) - plus the relation the call returned, must be         *)
(* behaviours of the model.  Blocks, relation, counters, remove lists and  *)
(* the queue are NOT logged: the model computes them; a logged Process     *)
(* must name a block the model has, with exactly that pending remove list, *)
(* and the returned relation must be the model's when its queue is empty.  *)
(* The cfg's NS / NL are upper bounds (states / labels beyond the logged   *)
(* ones are in no block and carry no edge).  Evidence only (DESIGN 2.7).   *)
(***************************************************************************)
EXTENDS LtsSim, IOUtils

Tr == ndJsonDeserialize(IOEnv.TRACE)
VARIABLE l
tvars == <<E, dup, part0, rel0, P, R, cnt, rem, queue, ph, l>>
Rng(f) == {f[x] : x \in DOMAIN f}
Ev == Tr[l]
IsEvent(n) == l <= Len(Tr) /\ Tr[l].e = n /\ l' = l + 1

TInit == l = 1 /\ E = {} /\ dup = {} /\ part0 = <<>> /\ rel0 = {} /\ P = <<>> /\ R = {} /\ cnt = <<>> /\ rem = <<>> /\ queue = {} /\ ph = "idle"
TStart == /\ IsEvent("Start")
          /\ LET es == Ev.edges
                 p0 == [i \in DOMAIN Ev.part |-> Rng(Ev.part[i])]
                 r0 == {<<x[1] + 1, x[2] + 1>> : x \in Rng(Ev.rel)}
             IN /\ E' = Rng(es)
                /\ dup' = {e \in Rng(es) : Cardinality({i \in DOMAIN es : es[i] = e}) >= 2}
                /\ part0' = p0 /\ rel0' = r0
          \* init() must see the loaded input: the harness writes a synthetic "Begin" line after every Start, consumed by
          \* TBegin = the model's Start action (this step only loads the input)
          /\ P' = <<>> /\ R' = {} /\ cnt' = <<>> /\ rem' = <<>> /\ queue' = {} /\ ph' = "new"
TBegin == /\ IsEvent("Begin") /\ Start
TProcess == /\ IsEvent("Process")
            /\ \E b \in 1..Len(P) : /\ P[b] = Rng(Ev.block)
                                    /\ rem[b][Ev.a] = Rng(Ev.remove)
                                    /\ ProcessOf(b, Ev.a)
TResult == /\ IsEvent("Result")
           /\ ph = "run" /\ queue = {}
           /\ Result = {<<x[1], x[2]>> : x \in Rng(Ev.pairs)}
           /\ ph' = "done" /\ UNCHANGED <<E, dup, part0, rel0, P, R, cnt, rem, queue>>
TNext == TStart \/ TBegin \/ TProcess \/ TResult
TSpec == TInit /\ [][TNext]_tvars
TraceAccepted ==
  LET d == TLCGet("stats").diameter IN
  IF d - 1 = Len(Tr) THEN TRUE ELSE PrintT(<<"TRACE-STUCK", d>>) /\ FALSE
=============================================================================
