CONSTANTS NS = 3  NL = 2  MaxE = 4  MaxDup = 1  PartKind = "trivial"  DedupPre = FALSE  NoInheritRemove = FALSE  NoMaskWhole = FALSE  SkipPrune = FALSE  PreAfterSplit = FALSE
SPECIFICATION Spec
INVARIANT Sound Exact IsPartition CountersExact RemoveListsRight
PROPERTY Terminates
CHECK_DEADLOCK FALSE
