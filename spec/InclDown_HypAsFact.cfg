CONSTANTS MaxR = 3  AlphaName = "bgf"  LeafAsWritten = FALSE  InheritCC = FALSE  HypAsFact = TRUE  Family = "cyc3"
INIT Init
NEXT Next
INVARIANT ExactK
CHECK_DEADLOCK FALSE
