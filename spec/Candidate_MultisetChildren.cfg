CONSTANTS MaxR = 3  NQ = 2  ExitBeforeRecord = FALSE  MultisetChildren = TRUE  NoLeafWork = FALSE
SPECIFICATION Spec
INVARIANT PostK
CHECK_DEADLOCK FALSE
