------------------------------- MODULE Product -------------------------------
(***************************************************************************)
(* Layer 2 (C02): both intersections of explicit tree automata as the      *)
(* work-list machines they are.                                            *)
(*  TD  (explicit_tree_isect.cc): pairs of final states are discovered     *)
(*      first; a popped pair <<s, t>> combines every rule of s with every  *)
(*      rule of t over the same symbol, discovers (and pushes, if new) the *)
(*      children pairs and adds the product rule.                          *)
(*  BU  (explicit_tree_isect_bu.cc): pairs of leaf-rule parents are        *)
(*      discovered first; a popped pair (once) looks at every pair of      *)
(*      rules having it as the child pair at some position; the parent     *)
(*      pair is entered into the map; if every child pair is in the map    *)
(*      (a child pair that IS the just-entered parent pair does not count) *)
(*      the product rule is added and the parent pushed, else a parent     *)
(*      pair that was new is erased again.                                 *)
(* States of the result are the pairs themselves (the code numbers them in *)
(* discovery order: the map is the identity here).  Every pop order.       *)
(* Checked at the end for all pairs of automata of the bound: IsectPost    *)
(* (language = L(A) /\ L(B); every result state is a discovered pair and   *)
(* accepts no more than both components), BU additionally: every state of  *)
(* the result is productive.                                               *)
(* Mutants: SelfLoopAlways (BU: a child pair equal to the parent pair      *)
(* never counts, even when the parent was known), FinalAtLeavesOnly (BU),  *)
(* NoRepush (BU: the parent is pushed only when new), FirstFinalOnly (TD), *)
(* NoPushKnownChild is the code (TD); PushNever (TD: children not pushed). *)
(***************************************************************************)
EXTENDS TA, TLC, Json, FiniteSetsExt
CONSTANTS MaxRA, MaxRB, NQ, Mode, SelfLoopAlways, FinalAtLeavesOnly, NoRepush, FirstFinalOnly, PushNever
Alpha == {<<"a", 0>>, <<"g", 1>>, <<"f", 2>>}
Tuples(Q, n) == IF n = 0 THEN {<<>>} ELSE IF n = 1 THEN {<<q>> : q \in Q} ELSE {<<p, q>> : p \in Q, q \in Q}
AllRules(Q) == UNION {{<<s[1], k, q>> : k \in Tuples(Q, s[2]), q \in Q} : s \in Alpha}
Auts(Q, m) == {[fin |-> F, rules |-> R] : F \in SUBSET Q, R \in UNION {kSubset(k, AllRules(Q)) : k \in 0..m}}

VARIABLES A, B, map, stack, done, fin, rules, ph
vars == <<A, B, map, stack, done, fin, rules, ph>>
Same(x, y) == x[1] = y[1] /\ Len(x[2]) = Len(y[2])
Zip(x, y) == [i \in 1..Len(x[2]) |-> <<x[2][i], y[2][i]>>]

Init == /\ A \in Auts(0..(NQ - 1), MaxRA) /\ B \in Auts(0..(NQ - 1), MaxRB)
        /\ map = {} /\ stack = {} /\ done = {} /\ fin = {} /\ rules = {} /\ ph = "new"
\* ---- top-down
StartTD == /\ ph = "new" /\ Mode = "td" /\ ph' = "run"
           /\ LET F == IF FirstFinalOnly /\ A.fin \X B.fin # {} THEN {CHOOSE p \in A.fin \X B.fin : TRUE} ELSE A.fin \X B.fin
              IN map' = F /\ stack' = F /\ fin' = F
           /\ UNCHANGED <<A, B, done, rules>>
PopTD(p) == /\ ph = "run" /\ Mode = "td" /\ p \in stack
            /\ LET combos == {<<x, y>> \in A.rules \X B.rules : x[3] = p[1] /\ y[3] = p[2] /\ Same(x, y)}
                   kids == UNION {{Zip(c[1], c[2])[i] : i \in 1..Len(c[1][2])} : c \in combos}
               IN /\ rules' = rules \cup {<<c[1][1], Zip(c[1], c[2]), p>> : c \in combos}
                  /\ map' = map \cup kids
                  /\ stack' = (stack \ {p}) \cup (IF PushNever THEN {} ELSE kids \ map)
            /\ UNCHANGED <<A, B, done, fin>>
\* ---- bottom-up
StartBU == /\ ph = "new" /\ Mode = "bu" /\ ph' = "run"
           /\ LET leaves == {<<x, y>> \in A.rules \X B.rules : x[2] = <<>> /\ y[2] = <<>> /\ x[1] = y[1]}
                  ps == {<<c[1][3], c[2][3]>> : c \in leaves}
              IN /\ map' = ps /\ stack' = ps
                 /\ fin' = {p \in ps : p[1] \in A.fin /\ p[2] \in B.fin}
                 /\ rules' = {<<c[1][1], <<>>, <<c[1][3], c[2][3]>>>> : c \in leaves}
           /\ UNCHANGED <<A, B, done>>
\* the rule pairs a popped pair looks at, one after the other in SOME order; st = [map, stack, rules]
RECURSIVE Examine(_, _, _)
Examine(st, todo, p) ==
  IF todo = {} THEN st
  ELSE LET c == CHOOSE x \in todo : TRUE
           par == <<c[1][3], c[2][3]>>
           isNew == par \notin st.map
           m1 == st.map \cup {par}
           kids == Zip(c[1], c[2])
           ok(k) == k \in m1 /\ ~(k = par /\ (isNew \/ SelfLoopAlways))
           all == \A i \in 1..Len(kids) : ok(kids[i])
       IN IF all THEN Examine([map |-> m1, rules |-> st.rules \cup {<<c[1][1], kids, par>>},
                               stack |-> IF NoRepush /\ ~isNew THEN st.stack ELSE st.stack \cup {par}], todo \ {c}, p)
          ELSE Examine([st EXCEPT !.map = IF isNew THEN st.map ELSE m1], todo \ {c}, p)
PopBU(p) == /\ ph = "run" /\ Mode = "bu" /\ p \in stack
            /\ IF p \in done THEN stack' = stack \ {p} /\ UNCHANGED <<map, done, fin, rules>>
               ELSE LET todo == {<<x, y>> \in A.rules \X B.rules : Same(x, y) /\ \E i \in 1..Len(x[2]) : x[2][i] = p[1] /\ y[2][i] = p[2]}
                        st == Examine([map |-> map, stack |-> stack \ {p}, rules |-> rules], todo, p)
                    IN /\ done' = done \cup {p}
                       /\ fin' = IF ~FinalAtLeavesOnly /\ p[1] \in A.fin /\ p[2] \in B.fin THEN fin \cup {p} ELSE fin
                       /\ map' = st.map /\ stack' = st.stack /\ rules' = st.rules
            /\ UNCHANGED <<A, B>>
Pop == \E p \in stack : (PopTD(p) \/ PopBU(p)) /\ UNCHANGED ph
Finish == ph = "run" /\ stack = {} /\ ph' = "done" /\ UNCHANGED <<A, B, map, stack, done, fin, rules>>
Next == StartTD \/ StartBU \/ Pop \/ Finish
Spec == Init /\ [][Next]_vars /\ WF_vars(Next)

Res == [fin |-> fin, rules |-> rules]
IsectPost ==
  ph = "done" =>
    /\ LangEq(Res, Prod(A, B))
    /\ States(Res) \subseteq map
    /\ \A r \in rules : \E x \in A.rules : \E y \in B.rules : Same(x, y) /\ r = <<x[1], Zip(x, y), <<x[3], y[3]>>>>
    /\ Mode = "bu" => States(Res) \subseteq Productive(Res)
Terminates == <>(ph = "done")
PostK == IsectPost \/ (PrintT(<<"KILLER", ToJson([A |-> A, B |-> B])>>) /\ FALSE)
=============================================================================
