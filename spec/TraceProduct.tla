----------------------------- MODULE TraceProduct -----------------------------
(***************************************************************************)
(* Step-level binding of the Layer-2 model Product to the code: executions *)
(* of Intersection / IntersectionBU (the cfg's Mode) recorded through the  *)
(* guarded hook (Start, one Pop per state pair processed) plus the         *)
(* returned automaton and product map must be behaviours of the model: a   *)
(* logged Pop must take a pair the model has on its work list, and the     *)
(* returned automaton, read back through the product map, must be the      *)
(* model's result when its work list is exhausted.  The map, the processed *)
(* set and the rules built so far are NOT logged.  (The code's stack holds *)
(* a pair once per push and skips processed pairs silently; the model's    *)
(* work list is a set - at the end it may still hold processed pairs.)     *)
(* Evidence only (DESIGN 2.7).                                             *)
(***************************************************************************)
EXTENDS Product, IOUtils
Tr == ndJsonDeserialize(IOEnv.TRACE)
VARIABLE l
tvars == <<A, B, map, stack, done, fin, rules, ph, l>>
Rng(f) == {f[x] : x \in DOMAIN f}
E == Tr[l]
ToAut(j) == [fin |-> Rng(j.fin), rules |-> {<<r[1], r[2], r[3]>> : r \in Rng(j.rules)}]
IsEvent(n) == l <= Len(Tr) /\ Tr[l].e = n /\ l' = l + 1

TInit == l = 1 /\ A = EmptyAut /\ B = EmptyAut /\ map = {} /\ stack = {} /\ done = {} /\ fin = {} /\ rules = {} /\ ph = "idle"
TStart == /\ IsEvent("Start") /\ E.mode = Mode
          /\ A' = ToAut(E.A) /\ B' = ToAut(E.B)
          /\ map' = {} /\ stack' = {} /\ done' = {} /\ fin' = {} /\ rules' = {} /\ ph' = "new"
TBegin == IsEvent("Begin") /\ (StartTD \/ StartBU)
TPop == /\ IsEvent("Pop")
        /\ LET p == <<E.p, E.q>> IN (PopTD(p) \/ (p \notin done /\ PopBU(p)))
        /\ UNCHANGED ph
TResult == /\ IsEvent("Result")
           /\ ph = "run" /\ stack \subseteq done
           /\ LET R == ToAut(E.R)
                  M == Rng(E.map)
                  inv == [u \in {m[3] : m \in M} |-> LET m == CHOOSE x \in M : x[3] = u IN <<m[1], m[2]>>]
              IN /\ States(R) \subseteq DOMAIN inv
                 /\ {inv[q] : q \in R.fin} = fin
                 /\ {<<r[1], [i \in 1..Len(r[2]) |-> inv[r[2][i]]], inv[r[3]]>> : r \in R.rules} = rules
           /\ ph' = "done" /\ UNCHANGED <<A, B, map, stack, done, fin, rules>>
TNext == TStart \/ TBegin \/ TPop \/ TResult
TSpec == TInit /\ [][TNext]_tvars
TraceAccepted ==
  LET d == TLCGet("stats").diameter IN
  IF d - 1 = Len(Tr) THEN TRUE ELSE PrintT(<<"TRACE-STUCK", d>>) /\ FALSE
=============================================================================
