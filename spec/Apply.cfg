CONSTANTS Vals = {0, 1}  NV = 3  MaxCalls = 1  OpsUsed = {"plus", "max"}
  NoReduce = FALSE  KeyFirstOnly = FALSE  BranchLower = FALSE  KeepMemo = FALSE  SwapSecond = FALSE
SPECIFICATION Spec
INVARIANT PointwiseOK Canonical MemoSound
CHECK_DEADLOCK FALSE
