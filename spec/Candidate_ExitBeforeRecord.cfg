CONSTANTS MaxR = 3  NQ = 2  ExitBeforeRecord = TRUE  MultisetChildren = FALSE  NoLeafWork = FALSE
SPECIFICATION Spec
INVARIANT PostK
CHECK_DEADLOCK FALSE
