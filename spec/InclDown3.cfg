CONSTANTS MaxR = 3  AlphaName = "abf"  LeafAsWritten = FALSE  InheritCC = FALSE  HypAsFact = FALSE  Family = "all2"
INIT Init
NEXT Next
INVARIANT Exact NonInclSound
CHECK_DEADLOCK FALSE
