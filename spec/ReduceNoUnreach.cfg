CONSTANTS MaxR = 3  NQ = 3  NonSymmetric = FALSE  UseUpSim = FALSE  NoUnreach = TRUE
INIT Init
NEXT Next
INVARIANT ReducePost
CHECK_DEADLOCK FALSE
