------------------------------- MODULE Candidate -------------------------------
(***************************************************************************)
(* Layer 2 (C15): GetCandidateTree (explicit_tree_candidate.cc) as a       *)
(* work-list state machine, bookkeeping as written:                        *)
(*  set-up  every rule becomes an info with the SET of its distinct        *)
(*          children still missing; leaf rules are recorded at once and    *)
(*          their parents enter the work list (once each); `remaining`     *)
(*          counts one unit per (non-leaf rule, distinct child);           *)
(*  Pop     a state is taken from the work list (the code: front of a      *)
(*          list, filled in hash-map order - modelled as ANY element);     *)
(*          every rule it is a child of loses it from its missing set;     *)
(*          a rule whose set becomes empty FIRES: remaining is decremented *)
(*          by one, and if its parent is new the rule is recorded, the     *)
(*          parent enters the work list, and if the parent is final the    *)
(*          loop is left at once (rules after it in the same Pop are not   *)
(*          looked at: the order inside a Pop is a model choice too);      *)
(*  Finish  final states of the result = reachable final states; rules =   *)
(*          ALL rules of the operand if remaining = 0, else the recorded   *)
(*          ones; the result is passed through RemoveUnreachableStates.    *)
(* Checked for every automaton of the bound, every pop order and every     *)
(* order of the rules inside a Pop:                                        *)
(*   SubLanguage   L(out) is contained in L(A)                             *)
(*   NonEmpty      L(out) is empty only if L(A) is                          *)
(*   Small         out has at most one non-leaf rule per state unless the  *)
(*                 whole table was kept (observation, not demanded by C15) *)
(* Mutants: ExitBeforeRecord (the loop is left before the firing rule is   *)
(* recorded), MultisetChildren (the missing children are a bag: a repeated *)
(* child is erased once - seeded change C15-m1), FinalsAll (all final      *)
(* states are copied, not the reachable ones - must NOT be refuted by      *)
(* SubLanguage / NonEmpty: kept as an equivalent variant, see cfg notes),  *)
(* ExitOnSeenFinal (the loop is left when the parent is final even if it   *)
(* was reached before - equivalent as well), NoLeafWork (parents of leaf   *)
(* rules are recorded but never enter the work list).                      *)
(***************************************************************************)
EXTENDS TA, TLC, Json, FiniteSetsExt
CONSTANTS MaxR, NQ, ExitBeforeRecord, MultisetChildren, NoLeafWork

Alpha == {<<"a", 0>>, <<"b", 0>>, <<"g", 1>>, <<"f", 2>>}
Tuples(Q, n) == IF n = 0 THEN {<<>>} ELSE IF n = 1 THEN {<<q>> : q \in Q} ELSE {<<p, q>> : p \in Q, q \in Q}
AllRules(Q) == UNION {{<<s[1], k, q>> : k \in Tuples(Q, s[2]), q \in Q} : s \in Alpha}
QS == 0..(NQ - 1)
Auts == {[fin |-> F, rules |-> R] : F \in SUBSET QS, R \in UNION {kSubset(k, AllRules(QS)) : k \in 0..MaxR}}
NonLeaf(X) == {r \in X.rules : Len(r[2]) > 0}
Leaves(X) == {r \in X.rules : Len(r[2]) = 0}
SumOver(S, f(_)) == LET F[T \in SUBSET S] == IF T = {} THEN 0 ELSE LET x == CHOOSE y \in T : TRUE IN f(x) + F[T \ {x}] IN F[S]
\* number of occurrences of q among the children of r
Occ(r, q) == Cardinality({i \in 1..Len(r[2]) : r[2][i] = q})

\* RemoveUnreachableStates as a function (modelled step by step in Trim.tla)
Unreach(X) == LET reach == TopLfp(X, X.fin) IN [fin |-> X.fin, rules |-> {r \in X.rules : r[3] \in reach}]

VARIABLES A, reached, work, miss, recorded, remaining, found, out, done
vars == <<A, reached, work, miss, recorded, remaining, found, out, done>>
\* miss[r]: function child -> number of erasures still needed (1 per distinct child; with MultisetChildren the number of occurrences,
\* of which one Pop removes only one)
Begin(X) ==
  [reached |-> {r[3] : r \in Leaves(X)},
   work |-> IF NoLeafWork THEN {} ELSE {r[3] : r \in Leaves(X)},
   miss |-> [r \in NonLeaf(X) |-> [q \in Kids(r) |-> IF MultisetChildren THEN Occ(r, q) ELSE 1]],
   recorded |-> Leaves(X),
   remaining |-> SumOver(NonLeaf(X), LAMBDA r : Cardinality(Kids(r)))]
Init == /\ A \in Auts /\ out = EmptyAut /\ done = FALSE /\ found = FALSE
        /\ LET b == Begin(A) IN reached = b.reached /\ work = b.work /\ miss = b.miss /\ recorded = b.recorded /\ remaining = b.remaining

\* the rules q is a missing child of, processed in the order given by the sequence ord (a permutation of them, possibly cut short
\* by the early exit)
RECURSIVE Process(_, _, _)
Process(st, q, ord) ==
  IF ord = <<>> \/ st.found THEN st
  ELSE LET r == Head(ord)
           left == st.miss[r][q] - 1
           m2 == [st.miss EXCEPT ![r][q] = left]
           fires == \A k \in Kids(r) : m2[r][k] = 0
       IN IF ~fires THEN Process([st EXCEPT !.miss = m2], q, Tail(ord))
          ELSE LET new == r[3] \notin st.reached
                   hit == new /\ r[3] \in A.fin
                   s2 == [st EXCEPT !.miss = m2, !.remaining = st.remaining - 1,
                                    !.reached = IF new THEN st.reached \cup {r[3]} ELSE st.reached,
                                    !.work = IF new THEN st.work \cup {r[3]} ELSE st.work,
                                    !.recorded = IF new /\ ~(hit /\ ExitBeforeRecord) THEN st.recorded \cup {r} ELSE st.recorded,
                                    !.found = hit]
               IN Process(s2, q, Tail(ord))
Perms(S) == {f \in [1..Cardinality(S) -> S] : \A i \in 1..Cardinality(S) : \A j \in 1..Cardinality(S) : f[i] = f[j] => i = j}
Users(q) == {r \in DOMAIN miss : q \in DOMAIN miss[r] /\ miss[r][q] > 0}
\* one Pop with the rules looked at in the order ord: all of them, or a prefix that ends with the rule that left the loop
PopOrd(q, ord) ==
  /\ ~done /\ ~found /\ q \in work
  /\ LET st == Process([reached |-> reached, work |-> work \ {q}, miss |-> miss, recorded |-> recorded,
                        remaining |-> remaining, found |-> FALSE], q, ord)
     IN /\ st.found \/ Len(ord) = Cardinality(Users(q))
        /\ reached' = st.reached /\ work' = st.work /\ miss' = st.miss /\ recorded' = st.recorded
        /\ remaining' = st.remaining /\ found' = st.found
  /\ UNCHANGED <<A, out, done>>
PopOf(q) == \E ord \in Perms(Users(q)) : PopOrd(q, ord)
Pop == \E q \in work : PopOf(q)
Finish ==
  /\ ~done /\ (work = {} \/ found)
  /\ done' = TRUE
  /\ out' = Unreach([fin |-> A.fin \cap reached, rules |-> IF remaining = 0 THEN A.rules ELSE recorded])
  /\ UNCHANGED <<A, reached, work, miss, recorded, remaining, found>>
Next == Pop \/ Finish
Spec == Init /\ [][Next]_vars

SubLanguage == done => Incl(out, A)
NonEmpty == done => (Empty(out) => Empty(A))
\* every recorded rule really fired: its children were reached before its parent
RecordedSound == \A r \in recorded : Kids(r) \subseteq reached /\ r[3] \in reached
ReachedProductive == reached \subseteq Productive(A)
PostK == (SubLanguage /\ NonEmpty) \/ (PrintT(<<"KILLER", ToJson([A |-> A])>>) /\ FALSE)
=============================================================================
