CONSTANTS MaxR = 3  AlphaName = "abf"  RevSubsume = TRUE  NoFinalCheck = FALSE  UnionChildren = FALSE  FirstPosOnly = FALSE  BFamily = "all2"
SPECIFICATION Spec
INVARIANT ExactK
CHECK_DEADLOCK FALSE
