CONSTANTS MaxR = 3  AlphaName = "abf"  RevSubsume = TRUE  NoFinalCheck = FALSE  UnionChildren = FALSE
SPECIFICATION Spec
INVARIANT ExactK
CHECK_DEADLOCK FALSE
