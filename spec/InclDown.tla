------------------------------- MODULE InclDown -------------------------------
(***************************************************************************)
(* Layer 2 (C01, C07): the downward inclusion algorithm with antichains    *)
(* (tree_incl_down.hh + down_tree_incl_fctor.hh; the explicit recursive    *)
(* selection and both BDD top-down selections instantiate it) as a         *)
(* FUNCTIONAL model: the recursion expand(q, S) threads                    *)
(*   ws  the workset of coinductive hypotheses (pairs on the call stack),  *)
(*   ni  the global antichain nonIncl of refuted pairs,                    *)
(*   cc  the childrenCache of the calling frame (positive results that     *)
(*       hold under the caller's hypotheses only)                          *)
(* and returns [r, ni, cc].  One frame handles all symbols of q; for each  *)
(* lhs tuple it first looks for ONE rhs tuple that covers it position by   *)
(* position, otherwise every choice function (rhs tuple -> position) must  *)
(* have a position whose chosen states include the lhs child.              *)
(* Iteration orders are those of OrdSeq(.) - the order of SetToSeq or its     *)
(* reverse (variable rev) - so two schedules are explored per input.       *)
(* Invariants, for EVERY pair of the bound:                                *)
(*   Exact        DownIncl(A,B).r = TA!Incl(A,B)                           *)
(*   NonInclSound every pair left in nonIncl is genuinely not included.    *)
(* Mutants: LeafAsWritten (the leaf test of the non-recursive variant      *)
(* before its repair: any rule instead of the leaf symbol), InheritCC (a   *)
(* frame starts with the childrenCache left behind by the previous frame   *)
(* instead of an empty one; harmless, hypotheses only grow down the stack  *)
(* - TLC confirms it is NOT refuted, kept as a documented non-mutant),     *)
(* HypAsFact (the positive entries a FAILED frame cached under its own,    *)
(* now refuted, hypothesis leak into the caller's cache - the stale-cache  *)
(* mistake of a recycled frame).                                           *)
(***************************************************************************)
EXTENDS TA, TLC, Json, SequencesExt, FiniteSetsExt
CONSTANTS MaxR, AlphaName, LeafAsWritten, InheritCC, HypAsFact, Family
Alpha == IF AlphaName = "abf" THEN {<<"a", 0>>, <<"b", 0>>, <<"f", 2>>}
         ELSE IF AlphaName = "bgf" THEN {<<"b", 0>>, <<"g", 1>>, <<"f", 2>>}
         ELSE {<<"a", 0>>, <<"b", 0>>, <<"g", 1>>, <<"f", 2>>}
Tuples(Q, n) == IF n = 0 THEN {<<>>} ELSE IF n = 1 THEN {<<q>> : q \in Q} ELSE {<<p, q>> : p \in Q, q \in Q}
AllRules(Q) == UNION {{<<s[1], k, q>> : k \in Tuples(Q, s[2]), q \in Q} : s \in Alpha}
Auts(Q) == {[fin |-> F, rules |-> R] : F \in SUBSET Q, R \in UNION {kSubset(k, AllRules(Q)) : k \in 0..MaxR}}

\* Family = "all2": every pair with <= 2 states and <= MaxR rules each.
\* Family = "cyc3": the shapes a 2-state B cannot have - A cyclic (b -> 0, f(0,0) -> 0, g(0) -> 1 or f(0,0) -> 1; final 1),
\* B nondeterministic on the leaf (b -> 11, b -> 12), any self-loop g-rules, any <= 3 binary rules over {10,11,12}, final {10,11}
AUniverse == IF Family = "all2" THEN Auts({0, 1})
             ELSE {[fin |-> {1}, rules |-> {<<"b", <<>>, 0>>, <<"f", <<0, 0>>, 0>>, <<"g", <<0>>, 1>>}],
                   [fin |-> {1}, rules |-> {<<"b", <<>>, 0>>, <<"f", <<0, 0>>, 0>>, <<"f", <<0, 0>>, 1>>}]}
BUniverse == IF Family = "all2" THEN Auts({2, 3})
             ELSE {[fin |-> {10, 11}, rules |-> {<<"b", <<>>, 11>>, <<"b", <<>>, 12>>} \cup G \cup F] :
                     G \in SUBSET {<<"g", <<q>>, q>> : q \in {10, 11, 12}},
                     F \in UNION {kSubset(k, {<<"f", <<p, q>>, r>> : p \in {10, 11, 12}, q \in {10, 11, 12}, r \in {10, 11, 12}}) : k \in 0..3}}

VARIABLES A, B, rev
OrdSeq(S) == IF rev THEN Reverse(SetToSeq(S)) ELSE SetToSeq(S)

InWs(ws, q, S) == \E p \in ws : p[1] = q /\ p[2] \subseteq S
NIImplied(ni, q, S) == \E p \in ni : p[1] = q /\ S \subseteq p[2]
InCC(cc, q, S) == \E p \in cc : p[1] = q /\ p[2] \subseteq S
AddNI(ni, q, S) == IF NIImplied(ni, q, S) THEN ni ELSE {p \in ni : ~(p[1] = q /\ p[2] \subseteq S)} \cup {<<q, S>>}
AddCC(cc, q, S) == IF InCC(cc, q, S) THEN cc ELSE {p \in cc : ~(p[1] = q /\ S \subseteq p[2])} \cup {<<q, S>>}
SymsOf(X, q) == {<<r[1], Len(r[2])>> : r \in RulesOf(X, q)}
Lhs(X, q, a) == {r[2] : r \in {x \in RulesOf(X, q) : x[1] = a[1] /\ Len(x[2]) = a[2]}}
Rhs(Y, S, a) == {r[2] : r \in {x \in Y.rules : x[3] \in S /\ x[1] = a[1] /\ Len(x[2]) = a[2]}}
ChoiceFns(W, n) == OrdSeq([W -> 1..n])

RECURSIVE Expand(_, _, _, _, _, _, _), Frame(_, _, _, _, _, _, _), SymLoop(_, _, _, _, _, _, _), TupLoop(_, _, _, _, _, _, _),
          TryW(_, _, _, _, _, _, _), AllPos(_, _, _, _, _, _, _, _), CfLoop(_, _, _, _, _, _, _, _), PosLoop(_, _, _, _, _, _, _, _, _)

\* expand(q, S): returns [r, ni, cc]; a failure found while a hypothesis was assumed is still recorded in ni, as the code does
Expand(X, Y, q, S, ws, ni, cc) ==
  IF InWs(ws, q, S) THEN [r |-> TRUE, ni |-> ni, cc |-> cc]
  ELSE IF NIImplied(ni, q, S) THEN [r |-> FALSE, ni |-> ni, cc |-> cc]
  ELSE IF InCC(cc, q, S) THEN [r |-> TRUE, ni |-> ni, cc |-> cc]
  ELSE IF q \in S THEN [r |-> TRUE, ni |-> ni, cc |-> cc]
  ELSE LET f == Frame(X, Y, q, S, ws \cup {<<q, S>>}, ni, IF InheritCC THEN cc ELSE {})
       IN IF f.r THEN [r |-> TRUE, ni |-> f.ni, cc |-> AddCC(cc, q, S)]
          ELSE [r |-> FALSE, ni |-> AddNI(f.ni, q, S), cc |-> IF HypAsFact THEN cc \cup f.cc ELSE cc]
Frame(X, Y, q, S, ws, ni, cc0) == SymLoop(X, Y, q, S, ws, OrdSeq(SymsOf(X, q)), [r |-> TRUE, ni |-> ni, cc |-> cc0])
SymLoop(X, Y, q, S, ws, syms, st) ==
  IF syms = <<>> THEN st
  ELSE LET a == Head(syms)
           L == Lhs(X, q, a)
           n == a[2]
           W == Rhs(Y, S, a)
           st1 == IF n = 0
                  THEN (IF LeafAsWritten THEN [st EXCEPT !.r = st.r /\ (\E s \in S : RulesOf(Y, s) # {})]
                                         ELSE [st EXCEPT !.r = st.r /\ W # {}])
                  ELSE IF W = {} THEN [st EXCEPT !.r = FALSE]
                  ELSE LET t == TupLoop(X, Y, ws, OrdSeq(L), OrdSeq(W), n, [r |-> TRUE, ni |-> st.ni, cc |-> st.cc])
                       IN [r |-> st.r /\ t.r, ni |-> t.ni, cc |-> t.cc]
       IN SymLoop(X, Y, q, S, ws, Tail(syms), st1)
TupLoop(X, Y, ws, ls, wseq, n, st) ==
  IF ls = <<>> THEN st
  ELSE LET l == Head(ls)
           t1 == TryW(X, Y, ws, l, wseq, n, st)
       IN IF t1.r THEN TupLoop(X, Y, ws, Tail(ls), wseq, n, [r |-> TRUE, ni |-> t1.ni, cc |-> t1.cc])
          ELSE LET c == CfLoop(X, Y, ws, l, wseq, n, ChoiceFns(1..Len(wseq), n), [r |-> TRUE, ni |-> t1.ni, cc |-> t1.cc])
               IN IF c.r THEN TupLoop(X, Y, ws, Tail(ls), wseq, n, c) ELSE c
TryW(X, Y, ws, l, wseq, n, st) ==
  IF wseq = <<>> THEN [st EXCEPT !.r = FALSE]
  ELSE LET a == AllPos(X, Y, ws, l, Head(wseq), 1, n, st)
       IN IF a.r THEN a ELSE TryW(X, Y, ws, l, Tail(wseq), n, [r |-> TRUE, ni |-> a.ni, cc |-> a.cc])
AllPos(X, Y, ws, l, w, i, n, st) ==
  IF i > n THEN [st EXCEPT !.r = TRUE]
  ELSE LET e == Expand(X, Y, l[i], {w[i]}, ws, st.ni, st.cc)
       IN IF e.r THEN AllPos(X, Y, ws, l, w, i + 1, n, e) ELSE e
CfLoop(X, Y, ws, l, wseq, n, cfs, st) ==
  IF cfs = <<>> THEN st
  ELSE LET p == PosLoop(X, Y, ws, l, wseq, n, Head(cfs), 1, st)
       IN IF p.r THEN CfLoop(X, Y, ws, l, wseq, n, Tail(cfs), [r |-> TRUE, ni |-> p.ni, cc |-> p.cc]) ELSE p
PosLoop(X, Y, ws, l, wseq, n, cf, i, st) ==
  IF i > n THEN [st EXCEPT !.r = FALSE]
  ELSE LET Si == {wseq[j][i] : j \in {k \in 1..Len(wseq) : cf[k] = i}}
       IN IF Si = {} THEN PosLoop(X, Y, ws, l, wseq, n, cf, i + 1, st)
          ELSE LET e == Expand(X, Y, l[i], Si, ws, st.ni, st.cc)
               IN IF e.r THEN e ELSE PosLoop(X, Y, ws, l, wseq, n, cf, i + 1, [r |-> TRUE, ni |-> e.ni, cc |-> e.cc])

\* CheckDownwardTreeInclusion: one top-level frame per final state of A against F_B (no workset entry)
RECURSIVE TopLoop(_, _, _, _)
TopLoop(X, Y, fs, ni) ==
  IF fs = <<>> THEN [r |-> TRUE, ni |-> ni]
  ELSE LET f == Frame(X, Y, Head(fs), Y.fin, {}, ni, {})
       IN IF f.r THEN TopLoop(X, Y, Tail(fs), f.ni) ELSE [r |-> FALSE, ni |-> f.ni]
DownIncl(X, Y) == TopLoop(X, Y, OrdSeq(X.fin), {})

Init == /\ rev \in BOOLEAN
        /\ \E A0 \in AUniverse, B0 \in BUniverse : A = Trim(A0) /\ B = Trim(B0)
Next == UNCHANGED <<A, B, rev>>
Exact == DownIncl(A, B).r = Incl(A, B)
NonInclSound == \A p \in DownIncl(A, B).ni : ~Incl(AtState(A, p[1]), [fin |-> p[2], rules |-> B.rules])
ExactK == Exact \/ (PrintT(<<"KILLER", ToJson([A |-> A, B |-> B])>>) /\ FALSE)
=============================================================================
