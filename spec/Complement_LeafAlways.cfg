CONSTANTS MaxR = 3  NQ = 2  UsePre = FALSE  LeafAlways = TRUE  NoRuleOnEmptyW = FALSE  AllPositions = FALSE  KeepMinimal = FALSE
INIT Init
NEXT Next
INVARIANT PostK
CHECK_DEADLOCK FALSE
