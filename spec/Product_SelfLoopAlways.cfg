CONSTANTS MaxRA = 2  MaxRB = 2  NQ = 2  Mode = "bu"  SelfLoopAlways = TRUE  FinalAtLeavesOnly = FALSE  NoRepush = FALSE  FirstFinalOnly = FALSE  PushNever = FALSE
SPECIFICATION Spec
INVARIANT PostK
CHECK_DEADLOCK FALSE
