CONSTANTS MaxR = 4  NQ = 2  Rank3 = FALSE  DoubleIdx = FALSE  EnvNoParent = FALSE  EnvNoIndex = FALSE  OneBlock = FALSE  SkipLeaf = TRUE  SharedPos = FALSE
SPECIFICATION Spec
INVARIANT DownK UpK
CHECK_DEADLOCK FALSE
