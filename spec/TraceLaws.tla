------------------------------ MODULE TraceLaws ------------------------------
(***************************************************************************)
(* C19: oracle-free laws over recorded verdicts on corpus-size automata.   *)
(* Each event carries the verdicts of all 8 inclusion selections on (A,B)  *)
(* and on a twin presentation (states renamed by random bijections, rules  *)
(* inserted in another order, symbols registered in another order), plus   *)
(* emptiness, simulation, result sizes and the laws of language inclusion  *)
(* evaluated with one selection.  "?" = the call exceeded its time limit   *)
(* (no verdict).  The laws are theorems of TA.tla (checked in TAcheck), so *)
(* nothing is demanded that the semantics does not imply.                  *)
(***************************************************************************)
EXTENDS TLC, Json, IOUtils, Naturals, Sequences, FiniteSets

Tr == ndJsonDeserialize(IOEnv.TRACE)
Rng(f) == {f[x] : x \in DOMAIN f}
Why(b, s) == IF b THEN {} ELSE {s}
Verdict(x) == x \in {"T", "F"}
NoVerdict(x) == x = "?"
\* a call on a well-formed automaton either answers or runs out of time; it never throws or dies
Sane(x) == Len(x) > 0 /\ SubSeq(x, 1, 1) \notin {"X", "!", "N"}
AllSame(S) == \A x \in S : \A y \in S : x = y
Holds(x, yes) == x = yes \/ NoVerdict(x)

LawFails(e) ==
  LET r == e.res
      vs == {x \in Rng(r.v) \cup Rng(r.v_twin) : Verdict(x)}
      strs == Rng(r.v) \cup Rng(r.v_twin) \cup Rng(r.empty) \cup Rng(r.red_states) \cup Rng(r.unreach_states) \cup Rng(r.useless_states)
              \cup {r.sim_mismatch, r.refl, r.union, r.isect, r.isectbu, r.ab, r.bc, r.ac,
                    r.eq_reduce, r.eq_useless, r.eq_unreach, r.eq_reindex, r.eq_reload}
      pairSame(p) == NoVerdict(p[1]) \/ NoVerdict(p[2]) \/ p[1] = p[2]
  IN Why(\A x \in strs : Sane(x), "call-threw-or-died")
     \cup Why(AllSame(vs), "selections-or-twin-disagree")
     \cup Why(pairSame(r.empty), "emptiness-not-invariant")
     \cup Why(Holds(r.sim_mismatch, "0"), "simulation-not-renamed-image")
     \cup Why(pairSame(r.red_states), "reduce-size-not-invariant")
     \cup Why(pairSame(r.unreach_states), "unreach-size-not-invariant")
     \cup Why(pairSame(r.useless_states), "useless-size-not-invariant")
     \cup Why(Holds(r.refl, "T"), "A-not-in-A")
     \cup Why(Holds(r.union, "T"), "A-not-in-AuB")
     \cup Why(Holds(r.isect, "T"), "AnB-not-in-A")
     \cup Why(Holds(r.isectbu, "TT"), "AnB(bu)-not-in-A-or-B")
     \cup Why(~(r.ab = "T" /\ r.bc = "T") \/ Holds(r.ac, "T"), "not-transitive")
     \cup Why(NoVerdict(r.ab) \/ ~Verdict(r.v[r.law_sel + 1]) \/ r.ab = r.v[r.law_sel + 1], "same-question-different-answer")
     \cup Why(Holds(r.eq_reduce, "TT"), "A-not-equiv-Reduce(A)")
     \cup Why(Holds(r.eq_useless, "TT"), "A-not-equiv-RemoveUseless(A)")
     \cup Why(Holds(r.eq_unreach, "TT"), "A-not-equiv-RemoveUnreachable(A)")
     \cup Why(Holds(r.eq_reindex, "TT"), "A-not-equiv-Reindex(A)")
     \cup Why(Holds(r.eq_reload, "TT"), "A-not-equiv-Load(Dump(A))")

\* a pair and its twin presentation (states renamed, rules / symbols in another order): one verdict for all 16 calls
TwinFails(e) ==
  LET vs == Rng(e.res.v) \cup Rng(e.res.v_twin)
  IN Why(\A x \in vs : Verdict(x), "call-threw") \cup Why(AllSame(vs), "selections-or-twin-disagree")

Fails(e) ==
  IF e.outcome # "ok" THEN {"outcome:" \o e.outcome}
  ELSE IF e.op = "laws" THEN LawFails(e)
  ELSE IF e.op = "twin" THEN TwinFails(e) ELSE {"unknown-op"}

VARIABLE l
Init == l \in 1..Len(Tr)
Next == UNCHANGED l
EventOK == LET f == Fails(Tr[l]) IN f = {} \/ (PrintT(<<"VFAIL", l, f>>) /\ FALSE)
=============================================================================
