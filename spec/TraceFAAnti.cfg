CONSTANTS NB = 3  MaxEB = 3  MemoConverse = FALSE  AKind = "three"
SPECIFICATION TSpec
POSTCONDITION TraceAccepted
CHECK_DEADLOCK FALSE
