------------------------------ MODULE MTBDDSem ------------------------------
(***************************************************************************)
(* Layer 0 for C17 / C18: an MTBDD over W boolean variables denotes a      *)
(* function from total assignments to values.  An assignment is a number   *)
(* n in 0..2^W-1 (variable i = bit i of n); a function is a sequence of    *)
(* 2^W values, f[n + 1].  Variable 0 is closest to the leaves, the highest *)
(* variable is at the root (OndriksMTBDD::constructMTBDD).  All operations *)
(* of the package are defined on functions; Nodes(f) is the node set of    *)
(* the reduced ordered diagram of f, which makes the exact size of the     *)
(* hash-consed unique tables a function of the set of live functions.      *)
(***************************************************************************)
EXTENDS Naturals, Sequences, FiniteSets

W == 4
N == 16
Asg == 0..(N - 1)
Pow2(i) == IF i = 0 THEN 1 ELSE IF i = 1 THEN 2 ELSE IF i = 2 THEN 4 ELSE IF i = 3 THEN 8 ELSE 16
Bit(n, i) == (n \div Pow2(i)) % 2
SetBit(n, i, b) == n - Bit(n, i) * Pow2(i) + b * Pow2(i)
Fn(F(_)) == [k \in 1..N |-> F(k - 1)]          \* tabulate
At(f, n) == f[n + 1]

Const(v) == [k \in 1..N |-> v]
\* asg: sequence over {0, 1, 2}, 2 = don't care; position i speaks about variable i - 1
Matches(asg, n, off) == \A i \in 1..Len(asg) : asg[i] = 2 \/ asg[i] = Bit(n, off + i - 1)
Mk(asg, v, d) == [k \in 1..N |-> IF Matches(asg, k - 1, 0) THEN v ELSE d]

Dep(f, v) == \E n \in Asg : At(f, n) # At(f, SetBit(n, v, 1 - Bit(n, v)))
Deps(f) == {v \in 0..(W - 1) : Dep(f, v)}
IsConst(f) == Deps(f) = {}
TopVar(f) == CHOOSE v \in Deps(f) : \A u \in Deps(f) : u <= v
Cof(f, v, b) == [k \in 1..N |-> At(f, SetBit(k - 1, v, b))]

MOD == 5
Op1(o, x) == CASE o = "sq" -> (x * x) % MOD [] o = "inc" -> (x + 1) % MOD [] o = "zero" -> 0
Op2(o, x, y) == CASE o = "plus" -> (x + y) % MOD [] o = "max" -> (IF x > y THEN x ELSE y)
                  [] o = "times" -> (x * y) % MOD [] o = "left" -> x
Op3(o, x, y, z) == CASE o = "ite" -> (IF x % 2 = 1 THEN y ELSE z) [] o = "plus3" -> (x + y + z) % MOD
Apply1(o, f) == [k \in 1..N |-> Op1(o, f[k])]
Apply2(o, f, g) == [k \in 1..N |-> Op2(o, f[k], g[k])]
Apply3(o, f, g, h) == [k \in 1..N |-> Op3(o, f[k], g[k], h[k])]

\* Project(pred, op): recursion on the highest variable the function depends on (projectNode)
RECURSIVE Project(_, _, _)
Project(f, P, o) ==
  IF IsConst(f) THEN f
  ELSE LET v == TopVar(f)
           lo == Project(Cof(f, v, 0), P, o)
           hi == Project(Cof(f, v, 1), P, o)
       IN IF v \in P THEN Apply2(o, lo, hi)
          ELSE [k \in 1..N |-> IF Bit(k - 1, v) = 0 THEN lo[k] ELSE hi[k]]
\* Rename(rho): the variable v of f becomes rho[v]  (domain: rho injective and order-preserving on Deps(f))
RenameOK(f, rho) == /\ \A v \in Deps(f) : rho[v] \in 0..(W - 1)
                    /\ \A u \in Deps(f) : \A v \in Deps(f) : u < v => rho[u] < rho[v]
RECURSIVE PullBack(_, _, _, _)
PullBack(n, rho, vs, acc) ==      \* the argument of f for the argument n of the renamed function
  IF vs = {} THEN acc
  ELSE LET v == CHOOSE x \in vs : TRUE IN PullBack(n, rho, vs \ {v}, SetBit(acc, v, Bit(n, rho[v])))
Rename(f, rho) == [k \in 1..N |-> At(f, PullBack(k - 1, rho, Deps(f), 0))]
\* ExtendWith(asg, off): tests the variables off, off+1, .. against asg, otherwise the default value
ExtendOK(f, asg, off) == off + Len(asg) <= W /\ \A v \in Deps(f) : v < off
Extend(f, asg, off, d) == [k \in 1..N |-> IF Matches(asg, k - 1, off) THEN f[k] ELSE d]
\* GetMtbddForPrefix(asg, off): cofactor w.r.t. the variables >= off, don't care read as 0
PrefixOK(asg, off) == off <= W /\ Len(asg) >= W - off
RECURSIVE FixFrom(_, _, _, _)
FixFrom(n, asg, off, v) == IF v >= W THEN n
                           ELSE FixFrom(SetBit(n, v, IF asg[v - off + 1] = 1 THEN 1 ELSE 0), asg, off, v + 1)
Prefix(f, asg, off) == [k \in 1..N |-> At(f, FixFrom(k - 1, asg, off, off))]

\* the nodes of the reduced ordered diagram of f, each identified with the function it denotes
RECURSIVE Nodes(_)
Nodes(f) == IF IsConst(f) THEN {f}
            ELSE {f} \cup Nodes(Cof(f, TopVar(f), 0)) \cup Nodes(Cof(f, TopVar(f), 1))
LeafCount(Fs) == Cardinality({g \in UNION {Nodes(f) : f \in Fs} : IsConst(g)})
InternalCount(Fs) == Cardinality({g \in UNION {Nodes(f) : f \in Fs} : ~IsConst(g)})
=============================================================================
