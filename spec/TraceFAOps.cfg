CONSTANTS NQ = 1  MaxE = 0  Ops = {}
  StartEither = FALSE  FinalEither = FALSE  NoFinalStart = FALSE  SymbolOfLeft = FALSE  KeepStartFinal = FALSE  ReachFromFinal = FALSE
SPECIFICATION TSpec
POSTCONDITION TraceAccepted
CHECK_DEADLOCK FALSE
