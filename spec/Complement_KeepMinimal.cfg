CONSTANTS MaxR = 3  NQ = 2  UsePre = TRUE  LeafAlways = FALSE  NoRuleOnEmptyW = FALSE  AllPositions = FALSE  KeepMinimal = TRUE
INIT Init
NEXT Next
INVARIANT PostK
CHECK_DEADLOCK FALSE
