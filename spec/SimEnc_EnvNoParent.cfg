CONSTANTS MaxR = 4  NQ = 2  Rank3 = FALSE  DoubleIdx = FALSE  EnvNoParent = TRUE  EnvNoIndex = FALSE  OneBlock = FALSE  SkipLeaf = FALSE  SharedPos = FALSE
SPECIFICATION Spec
INVARIANT DownK UpK
CHECK_DEADLOCK FALSE
