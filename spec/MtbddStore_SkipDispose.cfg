CONSTANTS NH = 3  MaxSteps = 6  SkipRootIncOnCopy = FALSE  SkipChildIncOnSpawn = FALSE  AssignNoSelfCheck = FALSE  SkipDispose = TRUE  Emit = FALSE
SPECIFICATION Spec
VIEW view
INVARIANT ObsInvK
CHECK_DEADLOCK FALSE
