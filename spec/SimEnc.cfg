CONSTANTS MaxR = 4  NQ = 2  Rank3 = FALSE  DoubleIdx = FALSE  EnvNoParent = FALSE  EnvNoIndex = FALSE  OneBlock = FALSE  SkipLeaf = FALSE  SharedPos = FALSE
SPECIFICATION Spec
INVARIANT DownExact UpExact
CHECK_DEADLOCK FALSE
