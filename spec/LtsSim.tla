-------------------------------- MODULE LtsSim --------------------------------
(***************************************************************************)
(* Layer 2 (C16): the partition-relation simulation engine of              *)
(* src/explicit_lts_sim.cc (SimulationEngine::init / run / processRemove / *)
(* split) as a state machine.                                              *)
(*   P     the blocks (sequence of sets of states; a split appends)        *)
(*   R     the relation on block indices, <<i, j>>: j simulates i          *)
(*   cnt   cnt[b][<<a, q>>] = number of a-edges of q into blocks of row(b) *)
(*         (parallel edges count separately: post/pre are vectors)         *)
(*   rem   rem[b][a] = pending remove list: states with an a-edge but none *)
(*         into row(b) any more;  queue = the <<b, a>> waiting             *)
(* Init is init(): blocks from the given partition, fastSplit by "has an   *)
(* a-edge" for every label, pruning of the relation, counters and first    *)
(* remove lists.  Process(b, a) is processRemove for ANY queued element    *)
(* (the code pops the back; every order is explored): pre-blocks of b      *)
(* (before the split), split of every block by the remove list (the part   *)
(* inside becomes a NEW block that inherits relation, counters and the     *)
(* pending remove lists for its own in-labels), erasure of <<b1, col>> for *)
(* pre-blocks b1 and blocks col inside the remove list, decrement of b1's  *)
(* counters over the predecessors of col, new remove entries at zero.      *)
(* Properties: Sound (no pair of the greatest simulation is ever lost),    *)
(* CountersExact, RemoveListsRight, Exact (at the end the lifted relation  *)
(* is the greatest simulation inside the input preorder), Terminates.      *)
(* Mutants: DedupPre (decrements ignore parallel edges), NoInheritRemove,  *)
(* NoMaskWhole (a block wholly inside the remove list is not masked),      *)
(* SkipPrune, PreAfterSplit.                                               *)
(***************************************************************************)
EXTENDS LTS, Integers, TLC, Json, FiniteSetsExt, SequencesExt
CONSTANTS NS, NL, MaxE, MaxDup, PartKind, DedupPre, NoInheritRemove, NoMaskWhole, SkipPrune, PreAfterSplit
Q == 0..(NS - 1)
Lab == 0..(NL - 1)
AllEdges == {<<p, a, q>> : p \in Q, a \in Lab, q \in Q}
VARIABLES E, dup, part0, rel0, P, R, cnt, rem, queue, ph
vars == <<E, dup, part0, rel0, P, R, cnt, rem, queue, ph>>

Count(S) == Cardinality(S) + Cardinality(S \cap dup)          \* edges with their multiplicity
Delta1(a) == {e[1] : e \in {x \in E : x[2] = a}}
Inset(B) == {e[2] : e \in {x \in E : x[3] \in B}}
Row(Rel, b) == {p[2] : p \in {x \in Rel : x[1] = b}}
StatesOf(Pp, I) == UNION {Pp[i] : i \in I}
EdgesInto(a, q, T) == {e \in E : e[1] = q /\ e[2] = a /\ e[3] \in T}
PreOf(a, T) == {e[1] : e \in {x \in E : x[2] = a /\ x[3] \in T}}
Keys == Lab \X Q

\* ---- splitting every block by a set S (blocks are visited in index order; the code visits them in the order the
\* ---- elements of S meet them: only the numbering of the new blocks differs)
SplitRel(Rel, i, n) == Rel \cup {<<n, j>> : j \in Row(Rel, i)} \cup {<<p[1], n>> : p \in {x \in Rel : x[2] = i}} \cup {<<n, n>>}
RECURSIVE FastSplit(_, _, _, _)
FastSplit(st, i, m0, S) ==
  IF i > m0 THEN st
  ELSE LET B == st.P[i]  in == B \cap S IN
       IF in = {} \/ in = B THEN FastSplit(st, i + 1, m0, S)
       ELSE LET n == Len(st.P) + 1 IN
            FastSplit([P |-> Append([st.P EXCEPT ![i] = B \ S], in), R |-> SplitRel(st.R, i, n)], i + 1, m0, S)
RECURSIVE FullSplit(_, _, _, _)
FullSplit(st, i, m0, S) ==
  IF i > m0 THEN st
  ELSE LET B == st.P[i]  in == B \cap S IN
       IF in = {} THEN FullSplit(st, i + 1, m0, S)
       ELSE IF in = B THEN FullSplit([st EXCEPT !.mask = IF NoMaskWhole THEN @ ELSE @ \cup {i}], i + 1, m0, S)
       ELSE LET n == Len(st.P) + 1
                nrem == [a \in Lab |-> IF ~NoInheritRemove /\ a \in Inset(in) THEN st.rem[i][a] ELSE {}]
            IN FullSplit([P |-> Append([st.P EXCEPT ![i] = B \ S], in),
                          R |-> SplitRel(st.R, i, n),
                          cnt |-> Append(st.cnt, st.cnt[i]),
                          rem |-> Append(st.rem, nrem),
                          queue |-> st.queue \cup {<<n, a>> : a \in {x \in Lab : nrem[x] # {}}},
                          mask |-> st.mask \cup {n}], i + 1, m0, S)

\* ---- init()
RECURSIVE InitSplits(_, _)
InitSplits(st, a) == IF a >= NL THEN st ELSE InitSplits(FastSplit(st, 1, Len(st.P), Delta1(a)), a + 1)
InitState(p0, r0) ==
  LET s1 == InitSplits([P |-> p0, R |-> r0], 0)
      m == Len(s1.P)
      pruned == IF SkipPrune THEN s1.R
                ELSE {p \in s1.R : ~\E a \in Lab : s1.P[p[1]] \cap Delta1(a) # {} /\ s1.P[p[2]] \cap Delta1(a) = {}}
      rowStates(b) == StatesOf(s1.P, Row(pruned, b))
      c == [b \in 1..m |-> [k \in Keys |-> IF k[1] \in Inset(s1.P[b]) THEN Count(EdgesInto(k[1], k[2], rowStates(b))) ELSE 0]]
      rm == [b \in 1..m |-> [a \in Lab |-> IF a \in Inset(s1.P[b]) THEN Delta1(a) \ PreOf(a, rowStates(b)) ELSE {}]]
  IN [P |-> s1.P, R |-> pruned, cnt |-> c, rem |-> rm,
      queue |-> {<<b, a>> \in (1..m) \X Lab : rm[b][a] # {}}]

SetPartitions == {X \in SUBSET (SUBSET Q \ {{}}) : UNION X = Q /\ \A A1 \in X : \A A2 \in X : A1 # A2 => A1 \cap A2 = {}}
Preorders(m) == {X \in SUBSET ((1..m) \X (1..m)) :
                   /\ \A i \in 1..m : <<i, i>> \in X
                   /\ \A p \in X : \A s \in X : p[2] = s[1] => <<p[1], s[2]>> \in X}
Inputs == IF PartKind = "trivial" THEN {[part |-> <<Q>>, rel |-> {<<1, 1>>}]}
          ELSE UNION {LET ps == SetToSeq(X) IN {[part |-> ps, rel |-> r] : r \in Preorders(Len(ps))} : X \in SetPartitions}

Init == /\ E \in UNION {kSubset(k, AllEdges) : k \in 0..MaxE}
        /\ dup \in UNION {kSubset(k, E) : k \in 0..(IF MaxDup < Cardinality(E) THEN MaxDup ELSE Cardinality(E))}
        /\ \E in \in Inputs : part0 = in.part /\ rel0 = in.rel
        /\ P = <<>> /\ R = {} /\ cnt = <<>> /\ rem = <<>> /\ queue = {} /\ ph = "new"
Start == /\ ph = "new" /\ ph' = "run"
         /\ LET s == InitState(part0, rel0) IN P' = s.P /\ R' = s.R /\ cnt' = s.cnt /\ rem' = s.rem /\ queue' = s.queue
         /\ UNCHANGED <<E, dup, part0, rel0>>
\* ---- processRemove(b, a)
ProcessOf(b, a) ==
  /\ ph = "run" /\ <<b, a>> \in queue
  /\ LET S == rem[b][a]
         pre0 == {i \in 1..Len(P) : \E e \in E : e[2] = a /\ e[1] \in P[i] /\ e[3] \in P[b]}
         st == FullSplit([P |-> P, R |-> R, cnt |-> cnt, rem |-> [rem EXCEPT ![b][a] = {}], queue |-> queue \ {<<b, a>>}, mask |-> {}],
                         1, Len(P), S)
         preList == IF PreAfterSplit THEN {i \in 1..Len(st.P) : \E e \in E : e[2] = a /\ e[1] \in st.P[i] /\ e[3] \in st.P[b]} ELSE pre0
         erased == {p \in st.R : p[1] \in preList /\ p[2] \in st.mask /\ p[1] # p[2]}
         gone(b1) == StatesOf(st.P, {p[2] : p \in {x \in erased : x[1] = b1}})
         dec(b1, k) == IF k[1] \in Inset(st.P[b1])
                       THEN LET es == EdgesInto(k[1], k[2], gone(b1)) IN IF DedupPre THEN Cardinality(es) ELSE Count(es)
                       ELSE 0
         ncnt == [b1 \in 1..Len(st.P) |-> [k \in Keys |-> st.cnt[b1][k] - dec(b1, k)]]
         zero(b1, a2) == {q \in Q : dec(b1, <<a2, q>>) > 0 /\ ncnt[b1][<<a2, q>>] = 0}
     IN /\ P' = st.P /\ R' = st.R \ erased /\ cnt' = ncnt
        /\ rem' = [b1 \in 1..Len(st.P) |-> [a2 \in Lab |-> st.rem[b1][a2] \cup zero(b1, a2)]]
        /\ queue' = st.queue \cup {<<b1, a2>> \in (1..Len(st.P)) \X Lab : st.rem[b1][a2] = {} /\ zero(b1, a2) # {}}
  /\ UNCHANGED <<E, dup, part0, rel0, ph>>
Process == \E x \in queue : ProcessOf(x[1], x[2])
Finish == ph = "run" /\ queue = {} /\ ph' = "done" /\ UNCHANGED <<E, dup, part0, rel0, P, R, cnt, rem, queue>>
Next == Start \/ Process \/ Finish
Spec == Init /\ [][Next]_vars /\ WF_vars(Next)

L0 == [n |-> NS, edges |-> E]
Lifted0 == {p \in Q \X Q : \E i \in 1..Len(part0) : \E j \in 1..Len(part0) : p[1] \in part0[i] /\ p[2] \in part0[j] /\ <<i, j>> \in rel0}
Greatest == GSimIn(L0, Lifted0)
Result == {p \in Q \X Q : \E x \in R : p[1] \in P[x[1]] /\ p[2] \in P[x[2]]}
Sound == ph # "new" => Greatest \subseteq Result
Exact == ph = "done" => Result = Greatest
IsPartition == ph # "new" => /\ UNION {P[i] : i \in 1..Len(P)} = Q
                             /\ \A i \in 1..Len(P) : P[i] # {} /\ \A j \in 1..Len(P) : i # j => P[i] \cap P[j] = {}
                             /\ \A i \in 1..Len(P) : <<i, i>> \in R
CountersExact == ph # "new" =>
  \A b \in 1..Len(P) : \A a \in Inset(P[b]) : \A q \in Delta1(a) :
     cnt[b][<<a, q>>] = Count(EdgesInto(a, q, StatesOf(P, Row(R, b))))
RemoveListsRight == ph # "new" =>
  \A b \in 1..Len(P) : \A a \in Lab :
     /\ (rem[b][a] # {}) = (<<b, a>> \in queue)
     /\ rem[b][a] \subseteq Delta1(a) \ PreOf(a, StatesOf(P, Row(R, b)))
Terminates == <>(ph = "done")
ExactK == (Exact /\ Sound) \/ (PrintT(<<"KILLER", ToJson([edges |-> E, dup |-> dup, part |-> part0, rel |-> rel0])>>) /\ FALSE)
=============================================================================
