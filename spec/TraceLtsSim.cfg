CONSTANTS NS = 6  NL = 4  MaxE = 0  MaxDup = 0  PartKind = "trivial"  DedupPre = FALSE  NoInheritRemove = FALSE  NoMaskWhole = FALSE  SkipPrune = FALSE  PreAfterSplit = FALSE
SPECIFICATION TSpec
POSTCONDITION TraceAccepted
CHECK_DEADLOCK FALSE
