------------------------------- MODULE GenLTS -------------------------------
(***************************************************************************)
(* Enumerates every LTS with GEN_NQ states, GEN_SIGMA labels and at most   *)
(* GEN_MAXR edges, times every partition of the states into blocks, times  *)
(* every reflexive-transitive relation on the blocks (see GenTA).          *)
(***************************************************************************)
EXTENDS LTS, TLC, Json, IOUtils, SequencesExt, FiniteSetsExt

Env(n, dflt) == IF n \in DOMAIN IOEnv THEN IOEnv[n] ELSE dflt
NQ      == atoi(Env("GEN_NQ", "2"))
MaxE    == atoi(Env("GEN_MAXR", "2"))
NSigma  == atoi(Env("GEN_SIGMA", "2"))
Shard   == atoi(Env("GEN_SHARD", "0"))
NShards == atoi(Env("GEN_NSHARDS", "1"))
OutFile == Env("GEN_OUT", "/dev/null")

Q == 0..(NQ - 1)
AllEdges == {<<p, a, q>> : p \in Q, a \in 0..(NSigma - 1), q \in Q}
EdgeSets == UNION {kSubset(k, AllEdges) : k \in 0..(IF MaxE < Cardinality(AllEdges) THEN MaxE ELSE Cardinality(AllEdges))}
Partitions == {P \in SUBSET (SUBSET Q \ {{}}) :
                 /\ UNION P = Q
                 /\ \A X \in P : \A Y \in P : X # Y => X \cap Y = {}}
Preorders(m) == {R \in SUBSET ((1..m) \X (1..m)) :
                   /\ \A i \in 1..m : <<i, i>> \in R
                   /\ \A p \in R : \A s \in R : p[2] = s[1] => <<p[1], s[2]>> \in R}
Matrix(R, m) == [i \in 1..m |-> [j \in 1..m |-> IF <<i, j>> \in R THEN 1 ELSE 0]]
PartRel == UNION {LET ps == SetToSeq(P)  m == Len(ps) IN
                  {[part |-> [i \in 1..m |-> SetToSeq(ps[i])], rel |-> Matrix(R, m)] : R \in Preorders(m)} : P \in Partitions}

Cases(dummy) ==
  LET es == SetToSeq(EdgeSets)
      prs == SetToSeq(PartRel)
      mine == {i \in 1..Len(es) : i % NShards = Shard}
  IN UNION {{[id |-> <<i, j>>, n |-> NQ, edges |-> es[i], part |-> prs[j].part, rel |-> prs[j].rel] : j \in 1..Len(prs)} : i \in mine}

ASSUME LET cs == SetToSeq(Cases(0)) IN
       /\ ndJsonSerialize(OutFile, cs)
       /\ PrintT(<<"generated", Len(cs)>>)
=============================================================================
