------------------------------ MODULE GenTimbuk ------------------------------
(***************************************************************************)
(* Enumerates automaton descriptions over pools of awkward (but legal)     *)
(* names, their surface variants (round-trip cases) and mutated texts      *)
(* (malformed-input cases) as NDJSON for the driver.  GEN_MODE = rt | bad. *)
(***************************************************************************)
EXTENDS Timbuk, TLC, Json, IOUtils, FiniteSetsExt

Env(n, dflt) == IF n \in DOMAIN IOEnv THEN IOEnv[n] ELSE dflt
Mode    == Env("GEN_MODE", "rt")
Shard   == atoi(Env("GEN_SHARD", "0"))
NShards == atoi(Env("GEN_NSHARDS", "1"))
OutFile == Env("GEN_OUT", "/dev/null")

StatePool == {"q0", "p_1", "s.x", "#", "a'", "[p|q]", "Ops", "Final", "States", "Automaton", "q0q", "9"}
SymFams == << [n0 |-> "a", n1 |-> "g", n2 |-> "f"],
              [n0 |-> "Transitions", n1 |-> "g-h", n2 |-> "0"],
              [n0 |-> "q0", n1 |-> "States", n2 |-> "x'y"],
              [n0 |-> "#", n1 |-> "#nil", n2 |-> "%f"] >>
StateSets == kSubset(1, StatePool) \cup kSubset(2, StatePool)
Rules(Q, F) == {<<F.n0, <<>>, q>> : q \in Q} \cup {<<F.n1, <<p>>, q>> : p \in Q, q \in Q}
               \cup {<<F.n2, <<p, r>>, q>> : p \in Q, r \in Q, q \in Q}
SymsOf(T) == {<<r[1], Len(r[2])>> : r \in T}
\* sharded over the state sets (and, through Shard, not a constant TLC would pre-evaluate for every mode)
Descs(shard) ==
  LET qs == SetToSeq(StateSets)
      mine == {qs[i] : i \in {j \in 1..Len(qs) : j % NShards = shard}}
  IN UNION {UNION {UNION {{[name |-> "A", syms |-> SymsOf(T), states |-> Q, fin |-> Fin, trans |-> T] : Fin \in SUBSET Q}
                       : T \in kSubset(0, Rules(Q, SymFams[f])) \cup kSubset(1, Rules(Q, SymFams[f])) \cup kSubset(2, Rules(Q, SymFams[f]))}
                : f \in 1..Len(SymFams)} : Q \in mine}

\* malformed texts: mutations of the canonical serialisation of a few base descriptions
Tokens(line) == LET RECURSIVE Split(_, _, _)
                    Split(s, cur, acc) ==
                      IF s = "" THEN (IF cur = "" THEN acc ELSE Append(acc, cur))
                      ELSE LET c == SubSeq(s, 1, 1)  rest == SubSeq(s, 2, Len(s))
                           IN IF c = " " THEN Split(rest, "", IF cur = "" THEN acc ELSE Append(acc, cur))
                              ELSE Split(rest, cur \o c, acc)
                IN Split(line, "", <<>>)
MutLine(toks, k, how, g) ==
  CASE how = "drop" -> SubSeq(toks, 1, k - 1) \o SubSeq(toks, k + 1, Len(toks))
    [] how = "dup"  -> SubSeq(toks, 1, k) \o SubSeq(toks, k, Len(toks))
    [] how = "swap" -> IF k < Len(toks) THEN SubSeq(toks, 1, k - 1) \o <<toks[k + 1], toks[k]>> \o SubSeq(toks, k + 2, Len(toks)) ELSE toks
    [] how = "ins"  -> SubSeq(toks, 1, k - 1) \o <<Garbage[g]>> \o SubSeq(toks, k, Len(toks))
Mutants(d) ==
  LET ls == Lines(d, 0)
      tl == [i \in 1..Len(ls) |-> Tokens(ls[i])]
      withLine(i, nt) == Join([j \in 1..Len(ls) |-> IF j = i THEN Join(nt, " ") ELSE ls[j]], "\n") \o "\n"
      txt == Ser(d, 0)
  IN UNION {UNION {{withLine(i, MutLine(tl[i], k, how, 1)) : how \in {"drop", "dup", "swap"}}
                   \cup {withLine(i, MutLine(tl[i], k, "ins", g)) : g \in 1..Len(Garbage)} : k \in 1..Len(tl[i])} : i \in 1..Len(ls)}
     \cup {SubSeq(txt, 1, c) : c \in 0..Len(txt)}                                   \* truncation at every character
     \cup {Join(SubSeq(ls, 1, i - 1) \o SubSeq(ls, i + 1, Len(ls)), "\n") : i \in 1..Len(ls)}     \* drop a line
     \cup {Join(SubSeq(ls, 1, i) \o SubSeq(ls, i, Len(ls)), "\n") : i \in 1..Len(ls)}             \* duplicate a line
BaseDescs == {[name |-> "A", syms |-> {<<"a", 0>>, <<"f", 2>>}, states |-> {"q0", "p_1"}, fin |-> {"p_1"},
               trans |-> {<<"a", <<>>, "q0">>, <<"f", <<"q0", "p_1">>, "p_1">>}],
              [name |-> "B", syms |-> {<<"x", 0>>, <<"g", 1>>}, states |-> {"#"}, fin |-> {"#"},
               trans |-> {<<"x", <<>>, "#">>, <<"g", <<"#">>, "#">>}],
              [name |-> "C", syms |-> {}, states |-> {}, fin |-> {}, trans |-> {}]}

Cases(dummy) ==
  IF Mode = "rt"
  THEN LET ds == SetToSeq(Descs(Shard))
           mine == 1..Len(ds)
       IN UNION {{[id |-> <<i, v>>, op |-> "timbuk", mode |-> "rt", variant |-> v, desc |-> ds[i], text |-> Ser(ds[i], v)] : v \in 0..5} : i \in mine}
  ELSE LET ms == SetToSeq(UNION {Mutants(d) : d \in BaseDescs})
           mine == {i \in 1..Len(ms) : i % NShards = Shard}
       IN {[id |-> <<i>>, op |-> "timbuk", mode |-> "bad", text |-> ms[i]] : i \in mine}

ASSUME LET cs == SetToSeq(Cases(0)) IN
       /\ ndJsonSerialize(OutFile, cs)
       /\ PrintT(<<"generated", Len(cs)>>)
=============================================================================
