CONSTANTS MaxRA = 2  MaxRB = 2  NQ = 2  Mode = "bu"  SelfLoopAlways = FALSE  FinalAtLeavesOnly = TRUE  NoRepush = FALSE  FirstFinalOnly = FALSE  PushNever = FALSE
SPECIFICATION Spec
INVARIANT PostK
CHECK_DEADLOCK FALSE
