CONSTANTS MaxR = 0  NQ = 1  Rank3 = FALSE  DoubleIdx = FALSE  EnvNoParent = FALSE  EnvNoIndex = FALSE  OneBlock = FALSE  SkipLeaf = FALSE  SharedPos = FALSE
INIT TInit
NEXT TNext
INVARIANT EventOK
CHECK_DEADLOCK FALSE
