------------------------------ MODULE TraceFA ------------------------------
(***************************************************************************)
(* Layer 1 contracts of the finite-automata operations (C09, C10) and the  *)
(* trace specification judging recorded events (see TraceTA for the idiom).*)
(***************************************************************************)
EXTENDS FA, TLC, Json, IOUtils

Tr == ndJsonDeserialize(IOEnv.TRACE)
Rng(f) == {f[x] : x \in DOMAIN f}
ToNfa(j) == [start |-> Rng(j.start), fin |-> Rng(j.fin), delta |-> Rng(j.delta)]
Has(e, k) == k \in DOMAIN e
Why(b, s) == IF b THEN {} ELSE {s}
TF(b) == IF b THEN "T" ELSE "F"
\* the operands as the operation saw them: the logged result of the pre-operation if there was one
OpA(e) == IF Has(e.res, "A1") THEN ToNfa(e.res.A1) ELSE ToNfa(e.A)
OpB(e) == IF Has(e.res, "B1") THEN ToNfa(e.res.B1) ELSE ToNfa(e.B)
Unchanged(e) == ToNfa(e.res.A_after) = OpA(e)
             /\ (Has(e.res, "B_after") => ToNfa(e.res.B_after) = OpB(e))
             \* a copy of the first operand (sharing its storage) that was alive during the call still has its value
             /\ (Has(e.res, "keep_after") => ToNfa(e.res.keep_after) = OpA(e))
PreOK(pre, X1, X) ==
  CASE pre = "reverse" -> FALangEq(X1, FRev(X))
    [] pre = "unreach" -> FALangEq(X1, X)
    [] pre = "useless" -> FALangEq(X1, X)
    [] pre = "witness" -> FAIncl(X1, X) /\ (FEmpty(X) \/ ~FEmpty(X1))
    [] pre = "copy"    -> X1 = X
    [] OTHER -> TRUE

\* C09
FaInclFails(e) ==
  LET A == ToNfa(e.A)  B == ToNfa(e.B)
  IN Why(e.res.v = TF(IF Has(e, "swap") THEN FAIncl(B, A) ELSE FAIncl(A, B)), e.sel) \cup Why(Unchanged(e), "operand-changed")

\* C10
FaOpFails(e) ==
  LET A == OpA(e)  R == ToNfa(e.res.R)
      B == IF Has(e, "B") THEN OpB(e) ELSE A
  IN Why(Unchanged(e), "operand-changed")
     \cup (IF Has(e.res, "A1") THEN Why(PreOK(e.preA, ToNfa(e.res.A1), ToNfa(e.A)), "pre-op-A-" \o e.preA) ELSE {})
     \cup (IF Has(e.res, "B1") THEN Why(PreOK(e.preB, ToNfa(e.res.B1), ToNfa(e.B)), "pre-op-B-" \o e.preB) ELSE {}) \cup
     (CASE e.kind = "union"     -> Why(FALangEq(R, FUnion(A, B)), "union-language")
        [] e.kind = "uniondisj" -> IF FStates(A) \cap FStates(B) # {} THEN {}
                                   ELSE Why(FALangEq(R, FDUnion(A, B)), "uniondisj-language")
        [] e.kind = "isect"     -> Why(FALangEq(R, FProd(A, B)), "isect-language")
        [] e.kind = "reverse"   -> Why(FALangEq(R, FRev(A)), "reverse-language")
        [] e.kind = "unreach"   -> Why(FALangEq(R, A), "unreach-language")
        [] e.kind = "useless"   -> Why(FALangEq(R, A), "useless-language")
        [] e.kind = "witness"   -> Why(FAIncl(R, A), "witness-not-a-sublanguage")
                                   \cup Why(FEmpty(A) \/ ~FEmpty(R), "witness-empty-for-nonempty")
        [] OTHER -> {"unknown-kind"})

Fails(e) ==
  IF e.outcome # "ok" THEN {"outcome:" \o e.outcome}
  ELSE CASE e.op = "faincl" -> FaInclFails(e)
         [] e.op = "faop"   -> FaOpFails(e)
         [] OTHER           -> {"unknown-op"}

VARIABLE l
Init == l \in 1..Len(Tr)
Next == UNCHANGED l
EventOK == LET f == Fails(Tr[l]) IN f = {} \/ (PrintT(<<"VFAIL", l, f>>) /\ FALSE)
=============================================================================
