CONSTANTS NB = 3  MaxEB = 3  MemoConverse = FALSE  AKind = "three"
SPECIFICATION Spec
INVARIANT Exact MemoTrue
PROPERTY Terminates
CHECK_DEADLOCK FALSE
