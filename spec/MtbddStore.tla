------------------------------ MODULE MtbddStore ------------------------------
(***************************************************************************)
(* Layer 2 (C18): the hash-consed node store of OndriksMTBDD with manual   *)
(* reference counts.  Nodes are their own canonical structure              *)
(* (<<"L", v>>, <<"N", var, lo, hi>>), so hash-consing is identity of      *)
(* values.  The store is a set of <<node, refcount>>.                      *)
(*   Spawn  = spawnLeaf / spawnInternal bottom-up: a missing node is       *)
(*            created with count 0, a NEW internal node increments its     *)
(*            children;                                                    *)
(*   Del    = recursivelyDeleteMTBDDNode: decrement, dispose at 0 and      *)
(*            recurse into the children of a disposed internal node.       *)
(* Touching a released node or decrementing below zero poisons the store   *)
(* so that an invariant fails.  fn[h] is the ghost function a handle must  *)
(* denote.  Invariants: StoreExact (store = nodes reachable from live      *)
(* roots: nothing released early, nothing leaked), CountsExact             *)
(* (refcount = number of referrers), Denotes (a live handle never changes  *)
(* its function).  Mutant constants switch one protocol step off.          *)
(* 2 variables (var 1 above var 0); a function is <<f00, f10, f01, f11>>   *)
(* indexed 1 + x0 + 2*x1.                                                  *)
(***************************************************************************)
EXTENDS Naturals, Sequences, FiniteSets, TLC, Json
CONSTANTS NH, MaxSteps, SkipRootIncOnCopy, SkipChildIncOnSpawn, AssignNoSelfCheck, SkipDispose, Emit
Cof(f, v, b) == [i \in 1..4 |-> LET x0 == (i - 1) % 2  x1 == (i - 1) \div 2 IN
                    IF v = 0 THEN f[1 + b + 2 * x1] ELSE f[1 + x0 + 2 * b]]
Dep(f, v) == Cof(f, v, 0) # Cof(f, v, 1)
RECURSIVE NodeOf(_)
NodeOf(f) == IF Dep(f, 1) THEN <<"N", 1, NodeOf(Cof(f, 1, 0)), NodeOf(Cof(f, 1, 1))>>
             ELSE IF Dep(f, 0) THEN <<"N", 0, NodeOf(Cof(f, 0, 0)), NodeOf(Cof(f, 0, 1))>>
             ELSE <<"L", f[1]>>
IsLeaf(n) == n[1] = "L"
RECURSIVE Desc(_)
Desc(n) == IF IsLeaf(n) THEN {n} ELSE {n} \cup Desc(n[3]) \cup Desc(n[4])
RECURSIVE Eval(_, _)
Eval(n, i) == IF IsLeaf(n) THEN n[2]
              ELSE LET x == IF n[2] = 0 THEN (i - 1) % 2 ELSE (i - 1) \div 2 IN Eval(IF x = 1 THEN n[4] ELSE n[3], i)
Den(n) == [i \in 1..4 |-> Eval(n, i)]

H == 1..NH
None == <<"none">>
VARIABLES store, root, fn, steps, hist
vars == <<store, root, fn, steps, hist>>
view == <<store, root, fn, steps>>
Present(st) == {e[1] : e \in st}
Rc(st, n) == (CHOOSE e \in st : e[1] = n)[2]
SetRc(st, n, k) == {e \in st : e[1] # n} \cup {<<n, k>>}
Inc(st, n) == SetRc(st, n, Rc(st, n) + 1)
RECURSIVE Spawn(_, _)
Spawn(st, n) == IF n \in Present(st) THEN st
                ELSE IF IsLeaf(n) THEN st \cup {<<n, 0>>}
                ELSE LET s1 == Spawn(st, n[3])  s2 == Spawn(s1, n[4])
                         s3 == IF SkipChildIncOnSpawn THEN s2 ELSE Inc(Inc(s2, n[3]), n[4])
                     IN s3 \cup {<<n, 0>>}
RECURSIVE Del(_, _)
Del(st, n) == IF n \notin Present(st) THEN {<<<<"DANGLING">>, 0>>} \cup st
              ELSE LET k == Rc(st, n) IN
                   IF k = 0 THEN {<<<<"UNDERFLOW">>, 0>>} \cup st
                   ELSE IF k > 1 THEN SetRc(st, n, k - 1)
                   ELSE IF SkipDispose THEN SetRc(st, n, 0)
                   ELSE LET s1 == {e \in st : e[1] # n} IN IF IsLeaf(n) THEN s1 ELSE Del(Del(s1, n[3]), n[4])
Tick(ev) == steps < MaxSteps /\ steps' = steps + 1 /\ hist' = Append(hist, ev)
Init == store = {} /\ root = [h \in H |-> None] /\ fn = [h \in H |-> [i \in 1..4 |-> 0]] /\ steps = 0 /\ hist = <<>>

\* constructible functions: Mk(asg over x0,x1 ; value ; default), 2 = don't care
MkFn(a, v, d) == [i \in 1..4 |-> LET x0 == (i - 1) % 2  x1 == (i - 1) \div 2 IN
                    IF (a[1] = 2 \/ a[1] = x0) /\ (a[2] = 2 \/ a[2] = x1) THEN v ELSE d]
Some == {[a |-> <<1, 0>>, v |-> 1, d |-> 0], [a |-> <<2, 1>>, v |-> 2, d |-> 0],
         [a |-> <<1, 1>>, v |-> 1, d |-> 2], [a |-> <<1, 2>>, v |-> 1, d |-> 0], [a |-> <<2, 2>>, v |-> 0, d |-> 1]}
Mk(h, m) == /\ root[h] = None /\ Tick(<<"mk", h - 1, <<m.a[1], m.a[2], 2, 2>>, m.v, m.d>>)
            /\ LET f == MkFn(m.a, m.v, m.d)  n == NodeOf(f) IN
                 store' = Inc(Spawn(store, n), n) /\ root' = [root EXCEPT ![h] = n] /\ fn' = [fn EXCEPT ![h] = f]
Copy(h, g) == /\ root[h] = None /\ root[g] # None /\ Tick(<<"copy", h - 1, g - 1>>)
              /\ store' = IF SkipRootIncOnCopy THEN store ELSE Inc(store, root[g])
              /\ root' = [root EXCEPT ![h] = root[g]] /\ fn' = [fn EXCEPT ![h] = fn[g]]
Assign(h, g) == /\ root[h] # None /\ root[g] # None /\ Tick(<<"assign", h - 1, g - 1>>)
                /\ IF h = g /\ ~AssignNoSelfCheck THEN UNCHANGED <<store, root, fn>>
                   ELSE LET s1 == Del(store, root[h]) IN
                        /\ store' = IF root[g] \in Present(s1) THEN Inc(s1, root[g]) ELSE {<<<<"DANGLING">>, 0>>} \cup s1
                        /\ root' = [root EXCEPT ![h] = root[g]] /\ fn' = [fn EXCEPT ![h] = fn[g]]
Destroy(h) == /\ root[h] # None /\ Tick(<<"destroy", h - 1>>)
              /\ store' = Del(store, root[h]) /\ root' = [root EXCEPT ![h] = None] /\ UNCHANGED fn
Op(k, x, y) == IF k = "max" THEN (IF x > y THEN x ELSE y) ELSE (x + y) % 5
Apply(h, g1, g2, k) == /\ root[h] = None /\ root[g1] # None /\ root[g2] # None /\ Tick(<<"apply2", h - 1, k, g1 - 1, g2 - 1>>)
                       /\ LET f == [i \in 1..4 |-> Op(k, fn[g1][i], fn[g2][i])]  n == NodeOf(f) IN
                            /\ store' = Inc(Spawn(store, n), n) /\ root' = [root EXCEPT ![h] = n] /\ fn' = [fn EXCEPT ![h] = f]
Next == \E h \in H : \/ \E m \in Some : Mk(h, m) \/ Destroy(h)
                     \/ \E g \in H : Copy(h, g) \/ Assign(h, g) \/ \E g2 \in H, k \in {"max", "plus"} : Apply(h, g, g2, k)
Spec == Init /\ [][Next]_vars
LiveRoots == {root[h] : h \in {x \in H : root[x] # None}}
Reachable == UNION {Desc(n) : n \in LiveRoots}
Referrers(n) == Cardinality({h \in H : root[h] = n})
               + Cardinality({p \in Present(store) : ~IsLeaf(p) /\ p[3] = n}) + Cardinality({p \in Present(store) : ~IsLeaf(p) /\ p[4] = n})
StoreExact == Present(store) = Reachable
CountsExact == \A n \in Present(store) : Rc(store, n) = Referrers(n)
Denotes == \A h \in H : root[h] # None => root[h] \in Present(store) /\ Den(root[h]) = fn[h]
AllInv == StoreExact /\ CountsExact /\ Denotes
AllInvK == AllInv \/ (PrintT(<<"KILLER", ToJson(hist)>>) /\ FALSE)
\* what the implementation lets us observe (sizes through the hook, values): used to generate replayable killer histories
ObsInvK == (StoreExact /\ Denotes) \/ (PrintT(<<"KILLER", ToJson(hist)>>) /\ FALSE)
EmitHist == (Emit /\ steps > 0) => PrintT(<<"HIST", ToJson(hist)>>)
=============================================================================
