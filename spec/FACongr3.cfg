CONSTANTS NB = 3  MaxEB = 3  AKind = "four"  Order = "depth"  EmptyUncached = TRUE  MemoBySetOnly = FALSE  KeepPopped = FALSE  InitNoFinalCheck = FALSE  DropHalfEmpty = FALSE
SPECIFICATION Spec
INVARIANT Exact Shape
PROPERTY Terminates
CHECK_DEADLOCK FALSE
