CONSTANTS NQ = 2  MaxE = 3  Ops = {"unreach", "useless", "reverse", "witness"}
  StartEither = FALSE  FinalEither = FALSE  NoFinalStart = FALSE  SymbolOfLeft = FALSE  KeepStartFinal = FALSE  ReachFromFinal = FALSE
SPECIFICATION Spec
INVARIANT Post
CHECK_DEADLOCK FALSE
