CONSTANTS Vals = {0, 1, 2}  NV = 2  MaxCalls = 1  OpsUsed = {"plus", "max"}
  NoReduce = TRUE  KeyFirstOnly = FALSE  BranchLower = FALSE  KeepMemo = FALSE  SwapSecond = FALSE
SPECIFICATION Spec
INVARIANT PostK
CHECK_DEADLOCK FALSE
