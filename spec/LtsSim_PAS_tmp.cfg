CONSTANTS NS = 4  NL = 2  MaxE = 5  MaxDup = 0  PartKind = "trivial"  DedupPre = FALSE  NoInheritRemove = FALSE  NoMaskWhole = FALSE  SkipPrune = FALSE  PreAfterSplit = TRUE
SPECIFICATION Spec
INVARIANT ExactK
CHECK_DEADLOCK FALSE
