----------------------------- MODULE TraceInclUp -----------------------------
(***************************************************************************)
(* Step-level binding of the Layer-2 model InclUp to the code: executions  *)
(* of the real upward inclusion algorithm, recorded through the guarded    *)
(* hook in explicit_tree_incl_up.{hh,cc} (VATA_VERIF), must be behaviours  *)
(* of the model.  Events:                                                  *)
(*   Start    the operands as the algorithm sees them (trimmed, densely    *)
(*            renumbered): the model runs its leaf phase on them;          *)
(*   Pick     <<q, S>> taken from the work list: must be in the model's    *)
(*            `next` (any element is allowed by the model - the code's     *)
(*            order is one schedule);                                      *)
(*   Rule     one rule visit <<rule, position>> (symbol unlogged, inferred): *)
(*            the model's StepRuleOf;                                      *)
(*   Verdict  TRUE only when the model's work list is empty as well; FALSE *)
(*            only when the model has just concluded FALSE.                *)
(* Unlogged: the antichain contents (inferred by the model's own           *)
(* transition).  A trace is accepted iff every line is consumed.           *)
(* By DESIGN 2.7 a rejected step trace is reported as model_binding        *)
(* divergence in the evidence, not as a violation.                         *)
(***************************************************************************)
EXTENDS InclUp, IOUtils

Tr == ndJsonDeserialize(IOEnv.TRACE)
VARIABLE l
tvars == <<A, B, processed, next, cur, todo, verdict, l>>
Rng(f) == {f[x] : x \in DOMAIN f}
E == Tr[l]
ToAut(j) == [fin |-> Rng(j.fin), rules |-> Rng(j.rules)]
IsEvent(n) == l <= Len(Tr) /\ Tr[l].e = n /\ l' = l + 1

TInit == l = 1 /\ A = EmptyAut /\ B = EmptyAut /\ processed = {} /\ next = {} /\ cur = <<>> /\ todo = {} /\ verdict = "idle"
\* a new execution: the primed state is the model's leaf phase on the logged operands
TStart == /\ IsEvent("Start")
          /\ LET At == ToAut(E.A)  Bt == ToAut(E.B)  LP == LeafPairs(At, Bt) IN
             /\ A' = At /\ B' = Bt /\ cur' = <<>> /\ todo' = {}
             /\ IF Cardinality(LeafSyms(Bt)) < Cardinality(LeafSyms(At)) THEN verdict' = "F" /\ processed' = {} /\ next' = {}
                ELSE IF \E p \in LP : Bad(At, Bt, p) THEN verdict' = "F" /\ processed' = {} /\ next' = {}
                ELSE verdict' = "run" /\ processed' = InsertAll({}, LP) /\ next' = InsertAll({}, LP)
\* Pick (composed with the EndPick of the previous pick)
TPick == /\ IsEvent("Pick") /\ verdict = "run" /\ todo = {}
         /\ LET p == <<E.q, Rng(E.S)>> IN
            /\ p \in next /\ cur' = p /\ next' = next \ {p}
            /\ todo' = UNION {{<<r, j>> : j \in {i \in 1..Len(r[2]) : r[2][i] = p[1]}} : r \in A.rules}
         /\ UNCHANGED <<A, B, processed, verdict>>
\* the logged symbol is the algorithm's INTERNAL symbol index (symbols are re-translated in visiting order), so the rule is
\* identified by children, parent and position; its symbol is left to the model (TLC branches if two symbols fit)
TRule == /\ IsEvent("Rule")
         /\ \E r \in A.rules : r[2] = E.kids /\ r[3] = E.parent /\ StepRuleOf(<<r, E.j + 1>>)
TVerdict == /\ IsEvent("Verdict")
            /\ IF E.v THEN verdict = "run" /\ todo = {} /\ next = {} /\ verdict' = "T"
                      ELSE verdict = "F" /\ verdict' = "F"
            /\ UNCHANGED <<A, B, processed, next, cur, todo>>
TNext == TStart \/ TPick \/ TRule \/ TVerdict
TSpec == TInit /\ [][TNext]_tvars
TraceAccepted ==
  LET d == TLCGet("stats").diameter IN
  IF d - 1 = Len(Tr) THEN TRUE ELSE PrintT(<<"TRACE-STUCK", d>>) /\ FALSE
=============================================================================
