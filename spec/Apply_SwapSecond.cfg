CONSTANTS Vals = {0, 1, 2}  NV = 2  MaxCalls = 1  OpsUsed = {"plus", "max"}
  NoReduce = FALSE  KeyFirstOnly = FALSE  BranchLower = FALSE  KeepMemo = FALSE  SwapSecond = TRUE
SPECIFICATION Spec
INVARIANT PostK
CHECK_DEADLOCK FALSE
