CONSTANTS Vals = {0, 1, 2}  NV = 2  MaxCalls = 1  OpsUsed = {"plus", "max"}
  NoReduce = FALSE  KeyFirstOnly = FALSE  BranchLower = TRUE  KeepMemo = FALSE  SwapSecond = FALSE
SPECIFICATION Spec
INVARIANT PostK
CHECK_DEADLOCK FALSE
