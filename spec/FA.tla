--------------------------------- MODULE FA ---------------------------------
(***************************************************************************)
(* Layer 0: nondeterministic finite word automata as libvata encodes them  *)
(* (a nullary Timbuk rule marks a start state - its symbol is not part of  *)
(* any word; a unary rule a(p) -> q is the edge p -a-> q).                 *)
(*   nfa == [start, fin, delta]      delta a set of <<p, a, q>>            *)
(* A word is accepted iff it labels a path from a start to a final state.  *)
(***************************************************************************)
EXTENDS Naturals, Sequences, FiniteSets

FStates(N) == N.start \cup N.fin \cup {e[1] : e \in N.delta} \cup {e[3] : e \in N.delta}
FSyms(N) == {e[2] : e \in N.delta}
FPost(N, S, a) == {e[3] : e \in {x \in N.delta : x[1] \in S /\ x[2] = a}}

\* forward / backward reachability
RECURSIVE FwdLfp(_, _)
FwdLfp(N, R) == LET R2 == R \cup {e[3] : e \in {x \in N.delta : x[1] \in R}} IN IF R2 = R THEN R ELSE FwdLfp(N, R2)
FReach(N) == FwdLfp(N, N.start)
RECURSIVE BwdLfp(_, _)
BwdLfp(N, R) == LET R2 == R \cup {e[1] : e \in {x \in N.delta : x[3] \in R}} IN IF R2 = R THEN R ELSE BwdLfp(N, R2)
FCoReach(N) == BwdLfp(N, N.fin)
FEmpty(N) == FReach(N) \cap N.fin = {}
FUseful(N) == FReach(N) \cap FCoReach(N)

(***************************************************************************)
(* Inclusion by the forward subset construction: FPairs(A,B) = least set   *)
(* of <<q, S>> with <<s, start_B>> for s in start_A, closed under          *)
(* q -a-> q' in A  ==>  <<q', post_B(S,a)>>.                               *)
(***************************************************************************)
RECURSIVE FPairLfp(_, _, _)
FPairLfp(A, B, R) ==
  LET R2 == R \cup UNION {{<<e[3], FPost(B, p[2], e[2])>> : e \in {x \in A.delta : x[1] = p[1]}} : p \in R}
  IN IF R2 = R THEN R ELSE FPairLfp(A, B, R2)
FPairs(A, B) == FPairLfp(A, B, {<<s, B.start>> : s \in A.start})
FAIncl(A, B) == \A p \in FPairs(A, B) : p[1] \in A.fin => p[2] \cap B.fin # {}
FALangEq(A, B) == FAIncl(A, B) /\ FAIncl(B, A)

\* constructions
FTag(N, t) == [start |-> {<<t, q>> : q \in N.start}, fin |-> {<<t, q>> : q \in N.fin},
               delta |-> {<<<<t, e[1]>>, e[2], <<t, e[3]>>>> : e \in N.delta}]
FDUnion(A, B) == [start |-> A.start \cup B.start, fin |-> A.fin \cup B.fin, delta |-> A.delta \cup B.delta]
FUnion(A, B) == FDUnion(FTag(A, 1), FTag(B, 2))
FProd(A, B) == [start |-> A.start \X B.start, fin |-> A.fin \X B.fin,
                delta |-> UNION {{<<<<x[1], y[1]>>, x[2], <<x[3], y[3]>>>> : y \in {z \in B.delta : z[2] = x[2]}} : x \in A.delta}]
FRev(N) == [start |-> N.fin, fin |-> N.start, delta |-> {<<e[3], e[2], e[1]>> : e \in N.delta}]

\* naive bounded semantics (cross-check only): words as sequences over Sigma up to length k
RECURSIVE WordsUpTo(_, _)
WordsUpTo(Sigma, k) == IF k = 0 THEN {<<>>}
                       ELSE LET W == WordsUpTo(Sigma, k - 1) IN W \cup {Append(w, a) : w \in W, a \in Sigma}
RECURSIVE RunFrom(_, _, _)
RunFrom(N, S, w) == IF w = <<>> THEN S ELSE RunFrom(N, FPost(N, S, Head(w)), Tail(w))
FAccepts(N, w) == RunFrom(N, N.start, w) \cap N.fin # {}
=============================================================================
