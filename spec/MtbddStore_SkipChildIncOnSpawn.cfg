CONSTANTS NH = 3  MaxSteps = 6  SkipRootIncOnCopy = FALSE  SkipChildIncOnSpawn = TRUE  AssignNoSelfCheck = FALSE  SkipDispose = FALSE  Emit = FALSE
SPECIFICATION Spec
VIEW view
INVARIANT ObsInvK
CHECK_DEADLOCK FALSE
