------------------------------- MODULE FAcheck -------------------------------
(***************************************************************************)
(* Self-check of the Layer-0 oracle for finite automata (FA.tla) against   *)
(* the naive semantics (enumerate words, run the automaton): inclusion     *)
(* (sound on all words up to length 5; negative verdicts certified by a    *)
(* witness word carried by the subset-construction fixpoint), emptiness,   *)
(* union, product, reversal.  Every pair of NFAs with <= 2 states and      *)
(* <= CHK_MAXR edges over {a, b}; sharded.                                 *)
(***************************************************************************)
EXTENDS FA, TLC, IOUtils, FiniteSetsExt, SequencesExt

Env(n, dflt) == IF n \in DOMAIN IOEnv THEN IOEnv[n] ELSE dflt
Shard   == atoi(Env("CHK_SHARD", "0"))
NShards == atoi(Env("CHK_NSHARDS", "1"))
MaxE    == atoi(Env("CHK_MAXR", "2"))
Sigma == {"a", "b"}
Q2 == {0, 1}
Edges == {<<p, a, q>> : p \in Q2, a \in Sigma, q \in Q2}
Nfas == {[start |-> S, fin |-> F, delta |-> D] : S \in SUBSET Q2, F \in SUBSET Q2, D \in UNION {kSubset(k, Edges) : k \in 0..MaxE}}
NfaSeq(x) == SetToSeq(Nfas)
VARIABLES A, B
Init == /\ A \in LET s == NfaSeq(0) IN {s[i] : i \in {j \in 1..Len(s) : j % NShards = Shard}}
        /\ B \in Nfas
Next == UNCHANGED <<A, B>>
W5 == WordsUpTo(Sigma, 5)

\* subset-construction fixpoint with one witness word per pair: <<q, S, w>>
StepFW(X, Y, R) ==
  LET cands == UNION {{<<e[3], FPost(Y, p[2], e[2]), Append(p[3], e[2])>> : e \in {x \in X.delta : x[1] = p[1]}} : p \in R}
      have == {<<x[1], x[2]>> : x \in R}
      fresh == {<<x[1], x[2]>> : x \in cands} \ have
  IN R \cup {CHOOSE x \in cands : x[1] = k[1] /\ x[2] = k[2] : k \in fresh}
RECURSIVE LfpFW(_, _, _)
LfpFW(X, Y, R) == LET R2 == StepFW(X, Y, R) IN IF R2 = R THEN R ELSE LfpFW(X, Y, R2)
PairsFW(X, Y) == LfpFW(X, Y, {<<s, Y.start, <<>>>> : s \in X.start})

InclSound == FAIncl(A, B) => \A w \in W5 : FAccepts(A, w) => FAccepts(B, w)
InclCertified ==
  LET R == PairsFW(A, B)
  IN /\ {<<x[1], x[2]>> : x \in R} = FPairs(A, B)
     /\ \A x \in R : x[1] \in RunFrom(A, A.start, x[3]) /\ x[2] = RunFrom(B, B.start, x[3])
     /\ ~FAIncl(A, B) => \E x \in R : FAccepts(A, x[3]) /\ ~FAccepts(B, x[3])
EmptyOK == FEmpty(A) = (\A w \in W5 : ~FAccepts(A, w))
OpsOK == \A w \in W5 :
           /\ FAccepts(FUnion(A, B), w) = (FAccepts(A, w) \/ FAccepts(B, w))
           /\ FAccepts(FProd(A, B), w) = (FAccepts(A, w) /\ FAccepts(B, w))
           /\ FAccepts(FRev(A), Reverse(w)) = FAccepts(A, w)
=============================================================================
