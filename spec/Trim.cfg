CONSTANTS MaxR = 3  NQ = 3  SizeCompare = FALSE  ArityDecrement = FALSE  EarlyExit = FALSE
SPECIFICATION Spec
INVARIANT UnreachPost UselessPost
CHECK_DEADLOCK FALSE
