------------------------------- MODULE GenTA -------------------------------
(***************************************************************************)
(* Case generator (spec -> implementation direction).  Enumerates EVERY    *)
(* tree automaton / pair of tree automata of a small universe and writes   *)
(* them as NDJSON cases for the C++ driver.  Parameters come from the      *)
(* environment so that one module serves every bound:                      *)
(*   GEN_MODE   pair | single                                              *)
(*   GEN_ALPHA  name of the ranked alphabet (see Alpha below)              *)
(*   GEN_NQ, GEN_MAXR      states 0..NQ-1, at most MAXR rules   (A)        *)
(*   GEN_NQB, GEN_MAXRB    same for B (pair mode)                          *)
(*   GEN_SHARD, GEN_NSHARDS  this process emits the cases whose A-index    *)
(*                           is = SHARD mod NSHARDS                        *)
(*   GEN_OUT    output file                                                *)
(***************************************************************************)
EXTENDS TA, TLC, Json, IOUtils, SequencesExt, FiniteSetsExt

Env(n, dflt) == IF n \in DOMAIN IOEnv THEN IOEnv[n] ELSE dflt
Mode    == Env("GEN_MODE", "pair")
AlphaN  == Env("GEN_ALPHA", "abgf")
NQ      == atoi(Env("GEN_NQ", "2"))
MaxR    == atoi(Env("GEN_MAXR", "2"))
NQB     == atoi(Env("GEN_NQB", "2"))
MaxRB   == atoi(Env("GEN_MAXRB", "2"))
Shard   == atoi(Env("GEN_SHARD", "0"))
NShards == atoi(Env("GEN_NSHARDS", "1"))
OutFile == Env("GEN_OUT", "/dev/null")

Alpha == CASE AlphaN = "abgf" -> {<<"a", 0>>, <<"b", 0>>, <<"g", 1>>, <<"f", 2>>}
           [] AlphaN = "abf"  -> {<<"a", 0>>, <<"b", 0>>, <<"f", 2>>}
           [] AlphaN = "agf"  -> {<<"a", 0>>, <<"g", 1>>, <<"f", 2>>}
           [] AlphaN = "ag"   -> {<<"a", 0>>, <<"g", 1>>}
           [] AlphaN = "abg"  -> {<<"a", 0>>, <<"b", 0>>, <<"g", 1>>}
           [] AlphaN = "af"   -> {<<"a", 0>>, <<"f", 2>>}
           [] AlphaN = "aagh" -> {<<"a", 0>>, <<"a", 1>>, <<"g", 1>>, <<"h", 1>>}

Tuples(Q, n) == IF n = 0 THEN {<<>>}
                ELSE IF n = 1 THEN {<<q>> : q \in Q}
                ELSE {<<p, q>> : p \in Q, q \in Q}
AllRules(Q) == UNION {{<<s[1], k, q>> : k \in Tuples(Q, s[2]), q \in Q} : s \in Alpha}
RuleSets(Q, m) == UNION {kSubset(k, AllRules(Q)) : k \in 0..(IF m < Cardinality(AllRules(Q)) THEN m ELSE Cardinality(AllRules(Q)))}
Auts(Q, m) == {[fin |-> F, rules |-> R] : F \in SUBSET Q, R \in RuleSets(Q, m)}

\* LET-bound values are evaluated once (a top-level definition that reads IOEnv is re-evaluated at every use)
Cases(dummy) ==
  LET as == SetToSeq(Auts(0..(NQ - 1), MaxR))
      mine == {i \in 1..Len(as) : i % NShards = Shard}
  IN IF Mode = "pair"
     THEN LET bs == SetToSeq(Auts(0..(NQB - 1), MaxRB))
          IN UNION {{[id |-> <<i, j>>, A |-> as[i], B |-> bs[j]] : j \in 1..Len(bs)} : i \in mine}
     ELSE {[id |-> <<i>>, A |-> as[i]] : i \in mine}

ASSUME LET cs == SetToSeq(Cases(0)) IN
       /\ ndJsonSerialize(OutFile, cs)
       /\ PrintT(<<"generated", Len(cs)>>)
=============================================================================
