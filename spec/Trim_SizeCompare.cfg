CONSTANTS MaxR = 3  NQ = 3  SizeCompare = TRUE  ArityDecrement = FALSE  EarlyExit = FALSE
SPECIFICATION Spec
INVARIANT PostK
CHECK_DEADLOCK FALSE
