------------------------------- MODULE GenFA -------------------------------
(***************************************************************************)
(* Enumerates every NFA / pair of NFAs of a small universe as NDJSON cases *)
(* (see GenTA).  GEN_SIGMA = number of letters (a, b, ...).                *)
(***************************************************************************)
EXTENDS FA, TLC, Json, IOUtils, SequencesExt, FiniteSetsExt

Env(n, dflt) == IF n \in DOMAIN IOEnv THEN IOEnv[n] ELSE dflt
Mode    == Env("GEN_MODE", "pair")
NQ      == atoi(Env("GEN_NQ", "2"))
MaxE    == atoi(Env("GEN_MAXR", "2"))
NQB     == atoi(Env("GEN_NQB", "2"))
MaxEB   == atoi(Env("GEN_MAXRB", "2"))
NSigma  == atoi(Env("GEN_SIGMA", "2"))
Shard   == atoi(Env("GEN_SHARD", "0"))
NShards == atoi(Env("GEN_NSHARDS", "1"))
OutFile == Env("GEN_OUT", "/dev/null")

Sigma == {<<"a", "b", "c">>[i] : i \in 1..NSigma}
Edges(Q) == {<<p, a, q>> : p \in Q, a \in Sigma, q \in Q}
Nfas(Q, m) == {[start |-> S, fin |-> F, delta |-> D] :
                 S \in SUBSET Q, F \in SUBSET Q, D \in UNION {kSubset(k, Edges(Q)) : k \in 0..(IF m < Cardinality(Edges(Q)) THEN m ELSE Cardinality(Edges(Q)))}}
Cases(dummy) ==
  LET as == SetToSeq(Nfas(0..(NQ - 1), MaxE))
      mine == {i \in 1..Len(as) : i % NShards = Shard}
  IN IF Mode = "pair"
     THEN LET bs == SetToSeq(Nfas(0..(NQB - 1), MaxEB))
          IN UNION {{[id |-> <<i, j>>, A |-> as[i], B |-> bs[j]] : j \in 1..Len(bs)} : i \in mine}
     ELSE {[id |-> <<i>>, A |-> as[i]] : i \in mine}

ASSUME LET cs == SetToSeq(Cases(0)) IN
       /\ ndJsonSerialize(OutFile, cs)
       /\ PrintT(<<"generated", Len(cs)>>)
=============================================================================
