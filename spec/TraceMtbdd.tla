----------------------------- MODULE TraceMtbdd -----------------------------
(***************************************************************************)
(* Trace specification for C17 / C18: a recorded history of OndriksMTBDD   *)
(* handles.  Spec state: fn[h] (the function a live handle denotes, or     *)
(* None) and dflt[h].  Every line is one operation; after it the logged    *)
(* full value table and default value of EVERY live handle must equal the  *)
(* spec state, == must hold between two live handles exactly when their    *)
(* functions are equal, and - for histories that use only the operations   *)
(* C18 lists (sz = TRUE on the Reset line) - the logged sizes of the two   *)
(* unique tables must equal the number of leaf / internal nodes of the     *)
(* reduced diagrams of the live functions (nothing leaked, nothing         *)
(* released early), returning to the base size when everything is dead.    *)
(***************************************************************************)
EXTENDS MTBDDSem, TLC, Json, IOUtils

Tr == ndJsonDeserialize(IOEnv.TRACE)
HN == {"m0", "m1", "m2", "m3"}
Hname(i) == <<"m0", "m1", "m2", "m3">>[i + 1]
None == <<>>
VARIABLES fn, dflt, l, base, sz
tvars == <<fn, dflt, l, base, sz>>
Rng(f) == {f[x] : x \in DOMAIN f}
Has(e, k) == k \in DOMAIN e
E == Tr[l]
I == Hname(E.i)
J == Hname(E.j)
K == Hname(E.k)
M == Hname(E.m)
Live(h) == fn[h] # None
LiveFns(f) == {f[h] : h \in {x \in HN : f[x] # None}}

\* what the log says after the step
Matched ==
  /\ \A h \in HN : IF fn'[h] = None THEN ~Has(E.live, h)
                   ELSE Has(E.live, h) /\ E.live[h].tab = fn'[h] /\ E.live[h].dflt = dflt'[h]
  /\ \A q \in Rng(E.eq) : q[3] = (fn'[Hname(q[1])] = fn'[Hname(q[2])]) /\ q[4] = ~q[3]
  /\ sz => /\ E.store[1] = base[1] + LeafCount(LiveFns(fn'))
           /\ E.store[2] = base[2] + InternalCount(LiveFns(fn'))
Set(h, f, d) == fn' = [fn EXCEPT ![h] = f] /\ dflt' = [dflt EXCEPT ![h] = d]
IsEvent(op) == l <= Len(Tr) /\ Tr[l].op = op /\ l' = l + 1
Keep == UNCHANGED <<base, sz>>

TInit == fn = [h \in HN |-> None] /\ dflt = [h \in HN |-> 0] /\ l = 1 /\ base = <<0, 0>> /\ sz = FALSE
TReset   == IsEvent("Reset") /\ fn' = [h \in HN |-> None] /\ dflt' = [h \in HN |-> 0] /\ base' = E.base /\ sz' = E.sz
\* the driver destroys everything at the end of a history: the store is back at its base size
TEnd     == IsEvent("End") /\ (sz => E["end"] = base) /\ UNCHANGED <<fn, dflt>> /\ Keep
TMk      == IsEvent("mk")      /\ ~Live(I) /\ Set(I, Mk(E.asg, E.v, E.d), E.d) /\ Matched /\ Keep
TConst   == IsEvent("const")   /\ ~Live(I) /\ Set(I, Const(E.v), E.v) /\ Matched /\ Keep
TCopy    == IsEvent("copy")    /\ ~Live(I) /\ Live(J) /\ Set(I, fn[J], dflt[J]) /\ Matched /\ Keep
TAssign  == IsEvent("assign")  /\ Live(I) /\ Live(J) /\ Set(I, fn[J], dflt[J]) /\ Matched /\ Keep
TDestroy == IsEvent("destroy") /\ Live(I) /\ Set(I, None, 0) /\ Matched /\ Keep
TApply1  == IsEvent("apply1")  /\ ~Live(I) /\ Live(J)
            /\ Set(I, Apply1(E.f, fn[J]), Op1(E.f, dflt[J])) /\ Matched /\ Keep
TApply2  == IsEvent("apply2")  /\ ~Live(I) /\ Live(J) /\ Live(K)
            /\ Set(I, Apply2(E.f, fn[J], fn[K]), Op2(E.f, dflt[J], dflt[K])) /\ Matched /\ Keep
TApply3  == IsEvent("apply3")  /\ ~Live(I) /\ Live(J) /\ Live(K) /\ Live(M)
            /\ Set(I, Apply3(E.f, fn[J], fn[K], fn[M]), Op3(E.f, dflt[J], dflt[K], dflt[M])) /\ Matched /\ Keep
TProject == IsEvent("project") /\ ~Live(I) /\ Live(J)
            /\ Set(I, Project(fn[J], Rng(E.vars), E.f), dflt[J]) /\ Matched /\ Keep
RhoOf(m) == [v \in 0..(W - 1) |-> IF \E p \in Rng(m) : p[1] = v THEN (CHOOSE p \in Rng(m) : p[1] = v)[2] ELSE v]
TRename  == IsEvent("rename")  /\ ~Live(I) /\ Live(J) /\ RenameOK(fn[J], RhoOf(E.map))
            /\ Set(I, Rename(fn[J], RhoOf(E.map)), dflt[J]) /\ Matched /\ Keep
TExtend  == IsEvent("extend")  /\ ~Live(I) /\ Live(J) /\ ExtendOK(fn[J], E.asg, E.off)
            /\ Set(I, Extend(fn[J], E.asg, E.off, dflt[J]), dflt[J]) /\ Matched /\ Keep
TPrefix  == IsEvent("prefix")  /\ ~Live(I) /\ Live(J) /\ PrefixOK(E.asg, E.off)
            /\ Set(I, Prefix(fn[J], E.asg, E.off), dflt[J]) /\ Matched /\ Keep
TNext == \/ TReset \/ TEnd \/ TMk \/ TConst \/ TCopy \/ TAssign \/ TDestroy \/ TApply1 \/ TApply2 \/ TApply3
         \/ TProject \/ TRename \/ TExtend \/ TPrefix
TSpec == TInit /\ [][TNext]_tvars

TraceAccepted ==
  LET d == TLCGet("stats").diameter IN
  IF d - 1 = Len(Tr) THEN TRUE ELSE PrintT(<<"TRACE-STUCK", d>>) /\ FALSE
=============================================================================
