----------------------------- MODULE TraceValue -----------------------------
(***************************************************************************)
(* Trace specification for C11 / C12: a recorded execution of the real     *)
(* ExplicitTreeAut / ExplicitFiniteAut handles (every public mutation,     *)
(* copy, move, destruction, library operation and query, with the          *)
(* projection of EVERY live handle logged after EVERY step) must be a      *)
(* behaviour of Value.tla.  Each trace line is consumed by exactly one     *)
(* action of Value; the action's successor must equal the logged           *)
(* projection (Matches).  Derived results take their value from the log    *)
(* (state naming is the implementation's choice) and must satisfy the      *)
(* Layer-1 contract of their operation on the CURRENT operand values       *)
(* - so an outcome that depended on earlier, unrelated activity in the     *)
(* process is rejected.  Several executions are concatenated, separated    *)
(* by Reset lines.  Accepted iff every line is consumed (POSTCONDITION).   *)
(***************************************************************************)
EXTENDS Value, TA, FA, TLC, Json, IOUtils

Tr == ndJsonDeserialize(IOEnv.TRACE)
VARIABLE l
tvars == <<val, l>>
Rng(f) == {f[x] : x \in DOMAIN f}
Has(e, k) == k \in DOMAIN e
Hname(i) == <<"h0", "h1", "h2", "h3">>[i + 1]
E == Tr[l]
I == Hname(E.i)
J == Hname(E.j)
K == Hname(E.k)
TF(b) == IF b THEN "T" ELSE "F"

ToVal(j) == AliveS(Rng(j.fin), Rng(j.rules), IF Has(j, "start") THEN Rng(j.start) ELSE {})
Logged(e) == [h \in HN |-> IF Has(e.live, h) THEN ToVal(e.live[h]) ELSE Dead]
NoDup(s) == Cardinality(Rng(s)) = Len(s)
\* every rule is yielded exactly once by iteration
BagsOK(e) == \A h \in DOMAIN e.live : NoDup(e.live[h].rules)

(***************************************************************************)
(* C12: the read-only views of every live handle agree with its value      *)
(***************************************************************************)
\* a history may ask for a subset of the views only (a view that is always asked can mask a defect: AreTransitionsEmpty, for
\* one, un-shares the rule storage as a side effect); every view that IS logged must agree with the value
ViewOK(v, x) ==
  LET has(k) == k \in DOMAIN x IN
  /\ has("accept") => NoDup(x.accept) /\ Rng(x.accept) = {r \in v.rules : r[3] \in v.fin}
  /\ has("down") => \A d \in Rng(x.down) : /\ NoDup(d[2]) /\ Rng(d[2]) = {r \in v.rules : r[3] = d[1]}
                                           /\ d[3] = (Rng(d[2]) = {})
  /\ has("contains") => \A c \in Rng(x.contains) : c[2] = (c[1] \in v.rules) /\ c[3] = c[2]
  /\ has("used") => Rng(x.used) = States([fin |-> v.fin, rules |-> v.rules])
  /\ has("empty") => x.empty = (v.rules = {})
  /\ has("isfinal") => \A f \in Rng(x.isfinal) : f[2] = (f[1] \in v.fin)
ViewsOK(e) == Has(e, "views") => \A h \in DOMAIN e.views : ViewOK(val'[h], e.views[h])

Matches == val' = Logged(E) /\ BagsOK(E) /\ ViewsOK(E)

(***************************************************************************)
(* Contracts of derived results and queries on the current operand values  *)
(***************************************************************************)
AutOf(v) == [fin |-> v.fin, rules |-> v.rules]
NfaOf(v) == [start |-> v.start, fin |-> v.fin, delta |-> v.rules]
Shift50 == [q \in 0..4999 |-> q + 50]
TaDeriveOK(kind, R, A, B) ==
  CASE kind = "union"     -> LangEq(R, Union(A, B))
    [] kind = "uniondisj" -> (States(A) \cap States(B) # {}) \/ LangEq(R, DUnion(A, B))
    [] kind = "isect"     -> LangEq(R, Prod(A, B))
    [] kind = "isectbu"   -> LangEq(R, Prod(A, B))
    [] kind = "unreach"   -> LangEq(R, A) /\ States(R) \subseteq TopReach(R)
    [] kind = "useless"   -> LangEq(R, A) /\ IsTrim(R)
    [] kind = "reduce"    -> LangEq(R, A)
    [] kind = "witness"   -> Incl(R, A) /\ (Empty(A) \/ ~Empty(R))
    [] kind = "reindex"   -> R = Image(A, Shift50)
    [] OTHER -> FALSE
FaDeriveOK(kind, R, A, B) ==
  CASE kind = "union"     -> FALangEq(R, FUnion(A, B))
    [] kind = "uniondisj" -> (FStates(A) \cap FStates(B) # {}) \/ FALangEq(R, FDUnion(A, B))
    [] kind = "isect"     -> FALangEq(R, FProd(A, B))
    [] kind = "reverse"   -> FALangEq(R, FRev(A))
    [] kind = "unreach"   -> FALangEq(R, A)
    [] kind = "useless"   -> FALangEq(R, A)
    [] kind = "witness"   -> FAIncl(R, A) /\ (FEmpty(A) \/ ~FEmpty(R))
    [] OTHER -> FALSE
VARIABLE kindv          \* "ta" or "fa": set by Reset
allvars == <<val, l, kindv>>
DeriveOK ==
  LET r == Logged(E)[I]  a == val[J]  b == IF E.k >= 0 THEN val[K] ELSE val[J]
  IN a.alive /\ b.alive /\
     IF kindv = "fa" THEN FaDeriveOK(E.kind, NfaOf(r), NfaOf(a), NfaOf(b))
                     ELSE TaDeriveOK(E.kind, AutOf(r), AutOf(a), AutOf(b))
QueryOK ==
  LET a == val[J] IN
  a.alive /\
  CASE E.kind = "incl"  -> val[K].alive /\ E.ret = TF(IF kindv = "fa" THEN FAIncl(NfaOf(a), NfaOf(val[K])) ELSE Incl(AutOf(a), AutOf(val[K])))
    [] E.kind = "empty" -> E.ret = TF(Empty(AutOf(a)))
    \* downward simulation (n = 3): judged when the states are within 0..2, on the states that occur
    [] E.kind = "simdown" -> LET X == AutOf(a)  Q == States(X) IN
                             (Q \subseteq {0, 1, 2}) =>
                               \A q \in Q : \A r \in Q : E.ret[q + 1][r + 1] = (IF <<q, r>> \in DownSim(X) THEN 1 ELSE 0)
    [] OTHER -> FALSE

(***************************************************************************)
(* One trace action per action of Value                                    *)
(***************************************************************************)
IsEvent(op) == l <= Len(Tr) /\ Tr[l].op = op /\ l' = l + 1
TInit == VInit /\ l = 1 /\ kindv = "ta"
TReset      == IsEvent("Reset") /\ val' = [h \in HN |-> Dead] /\ kindv' = E.kind
TNew        == IsEvent("new")        /\ New(I) /\ Matches /\ UNCHANGED kindv
TAdd        == IsEvent("add")        /\ Add(I, E.rule) /\ Matches /\ UNCHANGED kindv
TFinal      == IsEvent("final")      /\ SetFinal(I, E.q) /\ Matches /\ UNCHANGED kindv
TStart      == IsEvent("start")      /\ SetStart(I, E.q) /\ Matches /\ UNCHANGED kindv
TFinals     == IsEvent("finals")     /\ SetFinals(I, Rng(E.qs)) /\ Matches /\ UNCHANGED kindv
TEraseFinal == IsEvent("erasefinal") /\ EraseFinal(I) /\ Matches /\ UNCHANGED kindv
TClear      == IsEvent("clear")      /\ Clear(I) /\ Matches /\ UNCHANGED kindv
TCopyCtor   == IsEvent("copyctor")   /\ CopyCtor(I, J, E.ct, E.cf) /\ Matches /\ UNCHANGED kindv
TAssign     == IsEvent("assign")     /\ Assign(I, J) /\ Matches /\ UNCHANGED kindv
TMoveCtor   == IsEvent("movector")   /\ MoveCtor(I, J) /\ Matches /\ UNCHANGED kindv
TMoveAssign == IsEvent("moveassign") /\ MoveAssign(I, J) /\ Matches /\ UNCHANGED kindv
TDestroy    == IsEvent("destroy")    /\ Destroy(I) /\ Matches /\ UNCHANGED kindv
TReindexInto == IsEvent("reindexinto") /\ LET rot == E.rot  F(q) == (q + rot) % 3 IN ReindexInto(I, J, F, E.addFinal)
                /\ Matches /\ UNCHANGED kindv
TCopyTrans  == IsEvent("copytrans")  /\ LET P == Rng(E.ps)  S(r) == r[3] \in P IN CopyTrans(I, J, S)
                /\ Matches /\ UNCHANGED kindv
TDerive     == IsEvent("derive")     /\ Derive(I, Logged(E)[I]) /\ Matches /\ DeriveOK /\ UNCHANGED kindv
TQuery      == IsEvent("query")      /\ Query /\ Matches /\ QueryOK /\ UNCHANGED kindv
TNext == \/ TReset \/ TNew \/ TAdd \/ TFinal \/ TStart \/ TFinals \/ TEraseFinal \/ TClear \/ TCopyCtor
         \/ TAssign \/ TMoveCtor \/ TMoveAssign \/ TDestroy \/ TDerive \/ TQuery \/ TReindexInto \/ TCopyTrans
TSpec == TInit /\ [][TNext]_allvars

\* one state per consumed line plus the initial state
TraceAccepted ==
  LET d == TLCGet("stats").diameter IN
  IF d - 1 = Len(Tr) THEN TRUE ELSE PrintT(<<"TRACE-STUCK", d>>) /\ FALSE
=============================================================================
