CONSTANTS MaxR = 3  NQ = 3  UsePre = FALSE  LeafAlways = FALSE  NoRuleOnEmptyW = FALSE  AllPositions = FALSE  KeepMinimal = FALSE
INIT Init
NEXT Next
INVARIANT ComplPost
CHECK_DEADLOCK FALSE
