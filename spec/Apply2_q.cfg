CONSTANTS Vals = {0, 1}  NV = 2  MaxCalls = 2  OpsUsed = {"plus", "left"}
  NoReduce = FALSE  KeyFirstOnly = FALSE  BranchLower = FALSE  KeepMemo = FALSE  SwapSecond = FALSE
SPECIFICATION Spec
INVARIANT PointwiseOK Canonical MemoSound
CHECK_DEADLOCK FALSE
