INIT Init
NEXT Next
INVARIANT InclSound InclCertified EmptyOK TrimOK SimOK LawsOK
CHECK_DEADLOCK FALSE
