CONSTANTS NB = 2  MaxEB = 3  AKind = "four"  Order = "depth"  EmptyUncached = FALSE  MemoBySetOnly = FALSE  KeepPopped = FALSE  InitNoFinalCheck = FALSE  DropHalfEmpty = FALSE
SPECIFICATION Spec
INVARIANT Exact Shape
PROPERTY Terminates
CHECK_DEADLOCK FALSE
