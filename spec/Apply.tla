--------------------------------- MODULE Apply ---------------------------------
(***************************************************************************)
(* Layer 2 (C17): the binary apply of OndriksMTBDD (src/mtbdd/apply2func.hh *)
(* recDescend) on node STRUCTURES, as written:                             *)
(*   - a memo keyed by the PAIR of operand nodes, looked up first;         *)
(*   - classifyCase2: both leaves -> leaf operation; otherwise branch on   *)
(*     the HIGHER of the two top variables, an operand whose top variable  *)
(*     is lower (or which is a leaf) is passed down unchanged on both      *)
(*     sides;                                                              *)
(*   - equal results for the two branches are returned as they are (no     *)
(*     node), otherwise the hash-consed internal node is spawned;          *)
(*   - the functor's memo is cleared at the start of every top-level call. *)
(* Nodes are their own canonical structure (<<"L", v>>, <<"N", var, lo,    *)
(* hi>>), as in MtbddStore.tla; three variables, variable 2 at the root.   *)
(* A behaviour is a sequence of top-level calls on ONE functor object      *)
(* (first call, then a second call with other operands / another leaf      *)
(* operation), so that what the memo carries over is part of the state.    *)
(* Checked for every pair of functions of the bound, every operation and   *)
(* every second call:                                                      *)
(*   Pointwise   Den(result) = the leaf operation applied pointwise        *)
(*   Canonical   result = NodeOf(Den(result)) (reduced and ordered: two    *)
(*               MTBDDs are equal iff their roots are the same node)       *)
(*   MemoSound   every memo entry maps a pair to the node of its apply     *)
(* Mutants: NoReduce (an internal node is spawned even when both branches  *)
(* are equal), KeyFirstOnly (memo keyed by the first operand only),        *)
(* BranchLower (branches on the lower top variable), KeepMemo (the memo    *)
(* survives into the next top-level call - with another operation it       *)
(* answers from the wrong table; seeded change C17-m4 was of this kind),   *)
(* SwapSecond (low / high of the second operand exchanged).                *)
(***************************************************************************)
EXTENDS Naturals, Sequences, FiniteSets, TLC, Json
CONSTANTS Vals, NV, MaxCalls, OpsUsed, NoReduce, KeyFirstOnly, BranchLower, KeepMemo, SwapSecond

\* functions over 3 variables: sequences of 8 values, index 1 + x0 + 2*x1 + 4*x2
Idx == 1..8
Bit(i, v) == ((i - 1) \div (IF v = 0 THEN 1 ELSE IF v = 1 THEN 2 ELSE 4)) % 2
SetBit(i, v, b) == i - Bit(i, v) * (IF v = 0 THEN 1 ELSE IF v = 1 THEN 2 ELSE 4) + b * (IF v = 0 THEN 1 ELSE IF v = 1 THEN 2 ELSE 4)
Cof(f, v, b) == [i \in Idx |-> f[SetBit(i, v, b)]]
Dep(f, v) == Cof(f, v, 0) # Cof(f, v, 1)
RECURSIVE NodeFrom(_, _)
NodeFrom(f, v) ==       \* the reduced ordered diagram of f, looking at variables v, v-1, .., 0
  IF v = 0 THEN (IF Dep(f, 0) THEN <<"N", 0, <<"L", Cof(f, 0, 0)[1]>>, <<"L", Cof(f, 0, 1)[1]>>>> ELSE <<"L", f[1]>>)
  ELSE IF Dep(f, v) THEN <<"N", v, NodeFrom(Cof(f, v, 0), v - 1), NodeFrom(Cof(f, v, 1), v - 1)>>
  ELSE NodeFrom(f, v - 1)
NodeOf(f) == NodeFrom(f, 2)
IsLeaf(n) == n[1] = "L"
RECURSIVE Eval(_, _)
Eval(n, i) == IF IsLeaf(n) THEN n[2] ELSE Eval(IF Bit(i, n[2]) = 1 THEN n[4] ELSE n[3], i)
Den(n) == [i \in Idx |-> Eval(n, i)]
Funs == {f \in [Idx -> Vals] : \A v \in 0..2 : v >= NV => ~Dep(f, v)}

MOD == 3
Op(o, x, y) == CASE o = "plus" -> (x + y) % MOD [] o = "max" -> (IF x > y THEN x ELSE y) [] o = "left" -> x [] o = "times" -> (x * y) % MOD
Pointwise(o, f, g) == [i \in Idx |-> Op(o, f[i], g[i])]

\* recDescend: returns [n |-> result node, memo |-> memo after the call]; the memo is a function from keys to nodes
Key(a, b) == IF KeyFirstOnly THEN <<a>> ELSE <<a, b>>
Top(n) == IF IsLeaf(n) THEN 0 ELSE n[2] + 1          \* 0 for leaves, var + 1 otherwise (so that leaves are lowest)
RECURSIVE Rec(_, _, _, _)
Rec(o, a, b, memo) ==
  IF Key(a, b) \in DOMAIN memo THEN [n |-> memo[Key(a, b)], memo |-> memo]
  ELSE IF IsLeaf(a) /\ IsLeaf(b)
  THEN LET r == <<"L", Op(o, a[2], b[2])>> IN [n |-> r, memo |-> memo @@ (Key(a, b) :> r)]
  ELSE LET ta == Top(a)  tb == Top(b)
           \* the variable branched on: the higher top variable (BranchLower: the lower one among the internal operands)
           useA == IF BranchLower THEN (ta > 0 /\ (tb = 0 \/ ta <= tb)) ELSE ta >= tb
           useB == IF BranchLower THEN (tb > 0 /\ (ta = 0 \/ tb <= ta)) ELSE tb >= ta
           var == (IF useA THEN ta ELSE tb) - 1
           la == IF useA THEN a[3] ELSE a      ha == IF useA THEN a[4] ELSE a
           lb0 == IF useB THEN b[3] ELSE b     hb0 == IF useB THEN b[4] ELSE b
           lb == IF SwapSecond THEN hb0 ELSE lb0
           hb == IF SwapSecond THEN lb0 ELSE hb0
           r1 == Rec(o, la, lb, memo)
           r2 == Rec(o, ha, hb, r1.memo)
           r == IF r1.n = r2.n /\ ~NoReduce THEN r1.n ELSE <<"N", var, r1.n, r2.n>>
       IN [n |-> r, memo |-> r2.memo @@ (Key(a, b) :> r)]
EmptyMemo == [k \in {} |-> <<>>]

VARIABLES calls, memo, last
vars == <<calls, memo, last>>
\* last: the operands, operation and result of the most recent top-level call
Init == calls = 0 /\ memo = EmptyMemo /\ last = [o |-> "none", f |-> [i \in Idx |-> 0], g |-> [i \in Idx |-> 0], n |-> <<"L", 0>>]
Call(o, f, g) ==
  /\ calls < MaxCalls
  /\ LET r == Rec(o, NodeOf(f), NodeOf(g), IF KeepMemo THEN memo ELSE EmptyMemo)
     IN memo' = r.memo /\ last' = [o |-> o, f |-> f, g |-> g, n |-> r.n]
  /\ calls' = calls + 1
Next == \E o \in OpsUsed : \E f \in Funs : \E g \in Funs : Call(o, f, g)
Spec == Init /\ [][Next]_vars

PointwiseOK == calls > 0 => Den(last.n) = Pointwise(last.o, last.f, last.g)
Canonical == calls > 0 => last.n = NodeOf(Den(last.n))
\* (checked for the memo of the most recent call only: with KeepMemo older entries belong to another operation)
MemoSound == calls > 0 /\ ~KeepMemo /\ ~KeyFirstOnly =>
               \A k \in DOMAIN memo : memo[k] = NodeOf(Pointwise(last.o, Den(k[1]), Den(k[2])))
PostK == (PointwiseOK /\ Canonical) \/ (PrintT(<<"KILLER", ToJson([o |-> last.o, f |-> last.f, g |-> last.g])>>) /\ FALSE)
=============================================================================
