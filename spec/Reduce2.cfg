CONSTANTS MaxR = 2  NQ = 3  NonSymmetric = FALSE  UseUpSim = FALSE  NoUnreach = FALSE
INIT Init
NEXT Next
INVARIANT ReducePost
CHECK_DEADLOCK FALSE
