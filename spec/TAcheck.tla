------------------------------- MODULE TAcheck -------------------------------
(***************************************************************************)
(* Self-check of the Layer-0 oracle (TA.tla): the exact finite             *)
(* characterisations are cross-checked, for EVERY pair of automata of the  *)
(* bound, against the naive semantics (enumerate trees, compute runs).     *)
(*  - positive inclusion verdicts against all trees of depth <= 3;         *)
(*  - negative verdicts are CERTIFIED: the fixpoint carries one witness    *)
(*    tree per pair <<q, S>>, and the witness of the offending pair must   *)
(*    be accepted by A and rejected by B under the naive run semantics     *)
(*    (no pumping bound needed);                                           *)
(*  - emptiness, trimming, simulations (soundness w.r.t. state languages,  *)
(*    reflexivity, transitivity) and the language laws C19 relies on.      *)
(* Sharded like the generators (CHK_SHARD / CHK_NSHARDS).                  *)
(***************************************************************************)
EXTENDS TA, TLC, IOUtils, FiniteSetsExt, SequencesExt

Env(n, dflt) == IF n \in DOMAIN IOEnv THEN IOEnv[n] ELSE dflt
Shard   == atoi(Env("CHK_SHARD", "0"))
NShards == atoi(Env("CHK_NSHARDS", "1"))
MaxR    == atoi(Env("CHK_MAXR", "2"))
Alpha == {<<"a", 0>>, <<"b", 0>>, <<"g", 1>>, <<"f", 2>>}
Tuples(Q, n) == IF n = 0 THEN {<<>>} ELSE IF n = 1 THEN {<<q>> : q \in Q} ELSE {<<p, q>> : p \in Q, q \in Q}
AllRules(Q) == UNION {{<<s[1], k, q>> : k \in Tuples(Q, s[2]), q \in Q} : s \in Alpha}
Auts(Q) == {[fin |-> F, rules |-> R] : F \in SUBSET Q, R \in UNION {kSubset(k, AllRules(Q)) : k \in 0..MaxR}}
AutSeq(x) == SetToSeq(Auts({0, 1}))

VARIABLES A, B
Init == /\ A \in LET s == AutSeq(0) IN {s[i] : i \in {j \in 1..Len(s) : j % NShards = Shard}}
        /\ B \in Auts({0, 1})
Next == UNCHANGED <<A, B>>

T3 == TreesUpTo(Alpha, 3)

\* fixpoint with one witness tree per pair: set of <<q, S, tree>>
RECURSIVE ChoicesW(_, _)
ChoicesW(kids, R) ==       \* sequences of triples, one per child
  IF kids = <<>> THEN {<<>>}
  ELSE UNION {{<<p>> \o c : c \in ChoicesW(Tail(kids), R)} : p \in {x \in R : x[1] = Head(kids)}}
StepW(X, Y, R) ==
  LET cands == UNION {{<<r[3], PostB(Y, r[1], [i \in 1..Len(c) |-> c[i][2]]), <<r[1], [i \in 1..Len(c) |-> c[i][3]]>>>>
                         : c \in ChoicesW(r[2], R)} : r \in X.rules}
      have == {<<x[1], x[2]>> : x \in R}
      fresh == {<<x[1], x[2]>> : x \in cands} \ have
  IN R \cup {CHOOSE x \in cands : x[1] = k[1] /\ x[2] = k[2] : k \in fresh}
RECURSIVE LfpW(_, _, _)
LfpW(X, Y, R) == LET R2 == StepW(X, Y, R) IN IF R2 = R THEN R ELSE LfpW(X, Y, R2)
PairsW(X, Y) == LfpW(X, Y, {})

InclSound == Incl(A, B) => \A t \in T3 : Accepts(A, t) => Accepts(B, t)
InclCertified ==
  LET W == PairsW(A, B)
  IN /\ {<<x[1], x[2]>> : x \in W} = BUPairs(A, B)
     /\ \A x \in W : x[1] \in ReachBy(A, x[3]) /\ x[2] = ReachBy(B, x[3])         \* every pair is what its witness tree reaches
     /\ ~Incl(A, B) => \E x \in W : Accepts(A, x[3]) /\ ~Accepts(B, x[3])
EmptyOK == Empty(A) = (\A t \in T3 : ~Accepts(A, t))          \* <= 2 states: a non-empty language has a tree of depth <= 2
TrimOK == LangEq(A, Trim(A)) /\ IsTrim(Trim(A)) /\ (\A t \in T3 : Accepts(A, t) = Accepts(Trim(A), t))
SimOK ==
  /\ \A p \in DownSim(A) : StateIncl(A, p[1], A, p[2])
  /\ IsReflexiveOn(DownSim(A), States(A)) /\ IsTransitive(DownSim(A))
  /\ LET At == Trim(A) IN IsReflexiveOn(UpSim(At), States(At)) /\ IsTransitive(UpSim(At))
LawsOK ==
  /\ Incl(A, A)
  /\ Incl(Tag(A, 1), Union(A, B)) /\ Incl(Tag(B, 2), Union(A, B))
  /\ Incl(Prod(A, B), A) /\ Incl(Prod(A, B), B)
  /\ \A t \in T3 : Accepts(Union(A, B), t) = (Accepts(A, t) \/ Accepts(B, t))
  /\ \A t \in T3 : Accepts(Prod(A, B), t) = (Accepts(A, t) /\ Accepts(B, t))
  /\ (Incl(A, B) /\ Incl(B, Trim(A))) => Incl(A, Trim(A))
=============================================================================
