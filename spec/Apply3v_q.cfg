CONSTANTS Vals = {0, 1, 2}  NV = 2  MaxCalls = 1  OpsUsed = {"plus"}
  NoReduce = FALSE  KeyFirstOnly = FALSE  BranchLower = FALSE  KeepMemo = FALSE  SwapSecond = FALSE
SPECIFICATION Spec
INVARIANT PointwiseOK Canonical MemoSound
CHECK_DEADLOCK FALSE
