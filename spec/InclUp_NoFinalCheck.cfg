CONSTANTS MaxR = 3  AlphaName = "abf"  RevSubsume = FALSE  NoFinalCheck = TRUE  UnionChildren = FALSE
SPECIFICATION Spec
INVARIANT ExactK
CHECK_DEADLOCK FALSE
