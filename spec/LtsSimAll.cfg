CONSTANTS NS = 3  NL = 2  MaxE = 3  MaxDup = 1  PartKind = "all"  DedupPre = FALSE  NoInheritRemove = FALSE  NoMaskWhole = FALSE  SkipPrune = FALSE  PreAfterSplit = FALSE
SPECIFICATION Spec
INVARIANT Sound Exact IsPartition CountersExact RemoveListsRight
PROPERTY Terminates
CHECK_DEADLOCK FALSE
