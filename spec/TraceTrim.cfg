CONSTANTS MaxR = 0  NQ = 1  SizeCompare = FALSE  ArityDecrement = FALSE  EarlyExit = FALSE
SPECIFICATION TSpec
POSTCONDITION TraceAccepted
CHECK_DEADLOCK FALSE
