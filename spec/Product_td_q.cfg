CONSTANTS MaxRA = 2  MaxRB = 1  NQ = 2  Mode = "td"  SelfLoopAlways = FALSE  FinalAtLeavesOnly = FALSE  NoRepush = FALSE  FirstFinalOnly = FALSE  PushNever = FALSE
SPECIFICATION Spec
INVARIANT IsectPost
PROPERTY Terminates
CHECK_DEADLOCK FALSE
