-------------------------------- MODULE Timbuk --------------------------------
(***************************************************************************)
(* Layer 0 for C13: automaton descriptions and their Timbuk serialisation. *)
(*   desc == [name, syms : set of <<name, rank>>, states : set of names,   *)
(*            fin : set of names, trans : set of <<sym, kids, parent>>]    *)
(* Text is built from LINES of TOKENS so that surface variants (nullary    *)
(* rules with / without parentheses, blank lines, extra blanks, q:0        *)
(* suffixes, empty sections) and token-level mutations (drop, duplicate,   *)
(* swap, insert reserved punctuation, truncate) can be enumerated.         *)
(***************************************************************************)
EXTENDS Naturals, Sequences, FiniteSets, SequencesExt

RECURSIVE Join(_, _)
Join(ss, sep) == IF ss = <<>> THEN "" ELSE IF Len(ss) = 1 THEN ss[1] ELSE ss[1] \o sep \o Join(Tail(ss), sep)
NatStr(n) == <<"0", "1", "2", "3", "4", "5">>[n + 1]

\* one rule as a single token-ish string; parens: write "a()" for nullary rules; inner: blanks directly inside the parentheses
\* ("a( )", "f( p , q )")
RuleStr(r, parens, blanks, inner) ==
  LET op == IF inner THEN "( " ELSE "("
      cl == IF inner THEN " )" ELSE ")"
      lhs == IF Len(r[2]) = 0 THEN (IF parens THEN r[1] \o (IF inner THEN "( )" ELSE "()") ELSE r[1])
             ELSE r[1] \o op \o Join(r[2], IF blanks THEN " , " ELSE ",") \o cl
  IN lhs \o (IF blanks THEN "   ->  " ELSE " -> ") \o r[3]

\* the lines of a serialisation.  variant 0: canonical; 1: nullary rules with (); 2: blank lines, extra blanks, q:0 suffixes;
\* 3: sections without content where the description allows it (no Ops / States lists); 4: symbols declared without a rank;
\* 5: TAB as the separator of the header lines, blanks directly inside every pair of parentheses ("a( )", "f( p , q )")
Lines(d, variant) ==
  LET symTok == [s \in d.syms |-> IF variant = 4 THEN s[1] ELSE s[1] \o ":" \o NatStr(s[2])]
      syms == SetToSeq({symTok[s] : s \in d.syms})
      sts == SetToSeq(d.states)
      stsV == IF variant = 2 THEN [i \in 1..Len(sts) |-> sts[i] \o ":0"] ELSE sts
      fins == SetToSeq(d.fin)
      rules == SetToSeq(d.trans)
      sep == IF variant = 2 THEN "  " ELSE IF variant = 5 THEN "\t" ELSE " "
      head == << IF variant = 3 THEN "Ops" ELSE Join(<<"Ops">> \o syms, sep),
                 "Automaton " \o d.name,
                 IF variant = 3 THEN "States" ELSE Join(<<"States">> \o stsV, sep),
                 Join(<<"Final States">> \o fins, sep),
                 "Transitions" >>
      body == [i \in 1..Len(rules) |-> RuleStr(rules[i], variant \in {1, 5}, variant \in {2, 5}, variant = 5)]
  IN IF variant = 2 THEN <<"", head[1], "", head[2], head[3], "   " \o head[4] \o "  ", head[5], "">> \o body \o <<"", "">>
     ELSE head \o body
Ser(d, variant) == Join(Lines(d, variant), "\n") \o "\n"

\* token-level mutants of the canonical text: the text is cut into blank-separated tokens per line
Garbage == <<"->", "(", ")", ",", ":", "Transitions", "x(y", "Final", "q:q:q", "a(b,c", "Automaton">>
=============================================================================
