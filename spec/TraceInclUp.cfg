CONSTANTS MaxR = 2  AlphaName = "abgf"  RevSubsume = FALSE  NoFinalCheck = FALSE  UnionChildren = FALSE  FirstPosOnly = FALSE  BFamily = "all2"
SPECIFICATION TSpec
POSTCONDITION TraceAccepted
CHECK_DEADLOCK FALSE
