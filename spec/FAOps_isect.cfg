CONSTANTS NQ = 2  MaxE = 2  Ops = {"isect"}
  StartEither = FALSE  FinalEither = FALSE  NoFinalStart = FALSE  SymbolOfLeft = FALSE  KeepStartFinal = FALSE  ReachFromFinal = FALSE
SPECIFICATION Spec
INVARIANT Post
CHECK_DEADLOCK FALSE
