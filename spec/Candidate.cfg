CONSTANTS MaxR = 3  NQ = 2  ExitBeforeRecord = FALSE  MultisetChildren = FALSE  NoLeafWork = FALSE
SPECIFICATION Spec
INVARIANT SubLanguage NonEmpty RecordedSound ReachedProductive
CHECK_DEADLOCK FALSE
