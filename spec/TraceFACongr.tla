----------------------------- MODULE TraceFACongr -----------------------------
(***************************************************************************)
(* Step-level binding of the Layer-2 model FACongr to the code: executions *)
(* of the real congruence inclusion algorithm (depth or breadth order, the *)
(* cfg's Order), recorded through the guarded hook in                      *)
(* explicit_finite_congr_fctor_cache_opt.hh - Start (the operands as the   *)
(* algorithm sees them: A is already the disjoint union), Step (the popped *)
(* pair and whether it was dropped as congruent), Add (a pair put on the   *)
(* work list; folded into the preceding Step as E.adds) - plus the verdict *)
(* the call returned, must be behaviours of the model.  The relation, the  *)
(* visited set and the memo are NOT logged: the model computes them; the   *)
(* logged pair must be the one the model pops, the logged skip decision    *)
(* the one the model's congruence closure takes, and the logged additions  *)
(* the model's for SOME order of the symbols.  Evidence only (DESIGN 2.7). *)
(***************************************************************************)
EXTENDS FACongr, IOUtils

Tr == ndJsonDeserialize(IOEnv.TRACE)
VARIABLE l
tvars == <<A, B, rel, nxt, visited, memo, verdict, l>>
Rng(f) == {f[x] : x \in DOMAIN f}
E == Tr[l]
ToNfa(j) == [start |-> Rng(j.start), fin |-> Rng(j.fin), delta |-> Rng(j.delta)]
IsEvent(n) == l <= Len(Tr) /\ Tr[l].e = n /\ l' = l + 1
Empty == [start |-> {}, fin |-> {}, delta |-> {}]

TInit == l = 1 /\ A = Empty /\ B = Empty /\ rel = <<>> /\ nxt = <<>> /\ visited = {} /\ memo = {} /\ verdict = "idle"
TStart == /\ IsEvent("Start")
          /\ LET A0 == ToNfa(E.A)  B0 == ToNfa(E.B)  X0 == A0.start \cup B0.start  Y0 == B0.start IN
             /\ A' = A0 /\ B' = B0
             /\ nxt' = <<<<X0, Y0>>>> /\ visited' = {<<X0, Y0>>}
             /\ verdict' = IF (X0 \cap (A0.fin \cup B0.fin) # {}) # (Y0 \cap B0.fin # {}) THEN "F" ELSE "run"
          /\ rel' = <<>> /\ memo' = {}
Adds == [i \in DOMAIN E.adds |-> <<Rng(E.adds[i].X), Rng(E.adds[i].Y)>>]
TStep == /\ IsEvent("Step")
         /\ nxt # <<>> /\ nxt[Len(nxt)] = <<Rng(E.X), Rng(E.Y)>>
         /\ \E ord \in UNION {[1..k -> FSyms(U)] : k \in 0..Cardinality(FSyms(U))} : StepOf(ord)
         /\ IF verdict' = "F" THEN ~E.skip
            ELSE /\ E.skip = (rel' = rel)
                 /\ nxt' = IF Order = "depth" THEN Front(nxt) \o Adds ELSE Reverse(Adds) \o Front(nxt)
TVerdict == /\ IsEvent("Verdict")
            /\ IF E.v THEN verdict = "run" /\ nxt = <<>> /\ verdict' = "T" ELSE verdict = "F" /\ verdict' = "F"
            /\ UNCHANGED <<A, B, rel, nxt, visited, memo>>
TNext == TStart \/ TStep \/ TVerdict
TSpec == TInit /\ [][TNext]_tvars
TraceAccepted ==
  LET d == TLCGet("stats").diameter IN
  IF d - 1 = Len(Tr) THEN TRUE ELSE PrintT(<<"TRACE-STUCK", d>>) /\ FALSE
=============================================================================
