--------------------------------- MODULE FAOps ---------------------------------
(***************************************************************************)
(* Layer 2 (C10): the constructions on finite word automata as written     *)
(* (explicit_finite_{isect,unreach,useless,reverse,candidate}.cc), each as *)
(* a state machine over one shared set of variables; `op` selects it.      *)
(*                                                                         *)
(*  isect    work list of state pairs, seeded with start x start (the      *)
(*           product state is start there and only there); Pop(p): p is    *)
(*           final iff both components are; for every symbol BOTH have,    *)
(*           edges to all successor pairs, new pairs are pushed; result    *)
(*           through RemoveUselessStates;                                  *)
(*  unreach  forward reachability from the start states, any pop order;    *)
(*           the result keeps the clusters of the reachable states, the    *)
(*           reachable final states and ALL start states;                  *)
(*  useless  unreach ; Reverse ; unreach ; Reverse   (as composed in the   *)
(*           code - the functions, any pop order gives the same sets);     *)
(*  reverse  start <-> final, every edge turned round;                     *)
(*  witness  breadth-first search from the start states (any pop order     *)
(*           here); the empty word is a witness if a start state is final; *)
(*           when a successor is final the search stops and the cluster of *)
(*           the current state is copied WHOLE (so are the clusters of all *)
(*           states expanded before); result through RemoveUselessStates.  *)
(* Checked for every automaton (pair) of the bound and every pop order:    *)
(*   Post = the contract TraceFA judges the real calls with.               *)
(* Mutants: StartEither (a product state is start if EITHER component is - *)
(* defect D4 before its repair), FinalEither, NoFinalStart (the witness    *)
(* ignores final start states - defect D5), PushAlways-free variants are   *)
(* equivalent and not listed; SymbolOfLeft (isect follows every symbol of  *)
(* the left automaton, pairing with ALL right successors), KeepStartFinal  *)
(* (reverse keeps the start states as start states), ReachFromFinal        *)
(* (unreach seeds its search with the final states).                       *)
(***************************************************************************)
EXTENDS FA, TLC, Json, FiniteSetsExt
CONSTANTS NQ, MaxE, Ops, StartEither, FinalEither, NoFinalStart, SymbolOfLeft, KeepStartFinal, ReachFromFinal

Sigma == {"a", "b"}
QS == 0..(NQ - 1)
AllEdges == {<<p, a, q>> : p \in QS, a \in Sigma, q \in QS}
Nfas == {[start |-> S, fin |-> F, delta |-> D] : S \in SUBSET QS, F \in SUBSET QS, D \in UNION {kSubset(k, AllEdges) : k \in 0..MaxE}}
EmptyNfa == [start |-> {}, fin |-> {}, delta |-> {}]
Out(N, q) == {e \in N.delta : e[1] = q}

\* the functions (any work-list order computes the same sets)
UnreachF(N) ==
  LET R == FwdLfp(N, IF ReachFromFinal THEN N.fin ELSE N.start)
  IN [start |-> N.start, fin |-> N.fin \cap R, delta |-> {e \in N.delta : e[1] \in R}]
ReverseF(N) == [start |-> IF KeepStartFinal THEN N.start ELSE N.fin, fin |-> N.start, delta |-> {<<e[3], e[2], e[1]>> : e \in N.delta}]
UselessF(N) == ReverseF(UnreachF(ReverseF(UnreachF(N))))

VARIABLES op, A, B, work, seen, res, out, done
vars == <<op, A, B, work, seen, res, out, done>>

Init ==
  /\ op \in Ops /\ A \in Nfas
  /\ B \in (IF op = "isect" THEN Nfas ELSE {EmptyNfa})
  /\ out = EmptyNfa /\ done = FALSE
  /\ CASE op = "isect" ->
            LET sp == IF StartEither THEN {p \in FStates(A) \X FStates(B) : p[1] \in A.start \/ p[2] \in B.start}
                      ELSE A.start \X B.start
                seed == A.start \X B.start
            IN work = seed /\ seen = seed /\ res = [start |-> sp, fin |-> {}, delta |-> {}]
       [] op = "witness" ->
            /\ work = A.start /\ seen = A.start
            /\ res = [start |-> A.start, fin |-> {}, delta |-> {}]
       [] op = "unreach" ->
            LET s0 == IF ReachFromFinal THEN A.fin ELSE A.start IN work = s0 /\ seen = s0 /\ res = EmptyNfa
       [] OTHER -> work = {} /\ seen = {} /\ res = EmptyNfa

PopIsect(p) ==
  /\ op = "isect" /\ ~done /\ p \in work
  /\ LET fin2 == IF (IF FinalEither THEN p[1] \in A.fin \/ p[2] \in B.fin ELSE p[1] \in A.fin /\ p[2] \in B.fin)
                 THEN res.fin \cup {p} ELSE res.fin
         edges == UNION {{<<p, x[2], <<x[3], y[3]>>>> : y \in {z \in Out(B, p[2]) : SymbolOfLeft \/ z[2] = x[2]}} : x \in Out(A, p[1])}
         succ == {e[3] : e \in edges}
     IN /\ res' = [res EXCEPT !.fin = fin2, !.delta = res.delta \cup edges]
        /\ seen' = seen \cup succ
        /\ work' = (work \ {p}) \cup (succ \ seen)
  /\ UNCHANGED <<op, A, B, out, done>>
FinishIsect ==
  /\ op = "isect" /\ ~done /\ work = {}
  /\ out' = UselessF(res) /\ done' = TRUE
  /\ UNCHANGED <<op, A, B, work, seen, res>>

PopUnreach(q) ==
  /\ op = "unreach" /\ ~done /\ q \in work
  /\ LET succ == {e[3] : e \in Out(A, q)} IN seen' = seen \cup succ /\ work' = (work \ {q}) \cup (succ \ seen)
  /\ UNCHANGED <<op, A, B, res, out, done>>
FinishUnreach ==
  /\ op = "unreach" /\ ~done /\ work = {}
  /\ out' = [start |-> A.start, fin |-> A.fin \cap seen, delta |-> {e \in A.delta : e[1] \in seen}] /\ done' = TRUE
  /\ UNCHANGED <<op, A, B, work, seen, res>>

FinishFun ==
  /\ op \in {"useless", "reverse"} /\ ~done
  /\ out' = (IF op = "useless" THEN UselessF(A) ELSE ReverseF(A)) /\ done' = TRUE
  /\ UNCHANGED <<op, A, B, work, seen, res>>

\* the witness: the shortcut for a final start state, otherwise one state expanded per step; its successors are looked at in
\* any order, the first final one ends the search
EmptyWordWitness ==
  /\ op = "witness" /\ ~done /\ ~NoFinalStart /\ A.start \cap A.fin # {}
  /\ \E s \in A.start \cap A.fin : out' = UselessF([res EXCEPT !.fin = {s}])
  /\ done' = TRUE /\ UNCHANGED <<op, A, B, work, seen, res>>
PopWitness(q) ==
  /\ op = "witness" /\ ~done /\ (NoFinalStart \/ A.start \cap A.fin = {}) /\ q \in work
  /\ LET succ == {e[3] : e \in Out(A, q)}
         hit == succ \cap A.fin
     IN IF hit # {}
        THEN \E f \in hit :           \* the search stops: nothing is left on the work list (successors seen before f do not matter)
               /\ res' = [res EXCEPT !.fin = {f}, !.delta = res.delta \cup Out(A, q)]
               /\ work' = {} /\ UNCHANGED seen
        ELSE /\ res' = [res EXCEPT !.delta = res.delta \cup Out(A, q)]
             /\ seen' = seen \cup succ /\ work' = (work \ {q}) \cup (succ \ seen)
  /\ UNCHANGED <<op, A, B, out, done>>
FinishWitness ==
  /\ op = "witness" /\ ~done /\ (NoFinalStart \/ A.start \cap A.fin = {}) /\ work = {}
  /\ out' = UselessF(res) /\ done' = TRUE
  /\ UNCHANGED <<op, A, B, work, seen, res>>

Next == (\E p \in work : PopIsect(p)) \/ FinishIsect \/ (\E q \in work : PopUnreach(q)) \/ FinishUnreach \/ FinishFun
        \/ EmptyWordWitness \/ (\E q \in work : PopWitness(q)) \/ FinishWitness
Spec == Init /\ [][Next]_vars

Post ==
  done =>
    CASE op = "isect"   -> FALangEq(out, FProd(A, B))
      [] op = "unreach" -> FALangEq(out, A) /\ {e[1] : e \in out.delta} \cup out.fin \subseteq FReach(out)
      [] op = "useless" -> FALangEq(out, A) /\ ({e[1] : e \in out.delta} \cup {e[3] : e \in out.delta} \cup out.fin) \subseteq FUseful(out)
      [] op = "reverse" -> FALangEq(out, FRev(A))
      [] op = "witness" -> FAIncl(out, A) /\ (FEmpty(A) \/ ~FEmpty(out))
      [] OTHER -> FALSE
PostK == Post \/ (PrintT(<<"KILLER", ToJson([op |-> op, A |-> A, B |-> B])>>) /\ FALSE)
=============================================================================
