INIT Init
NEXT Next
INVARIANT InclSound InclCertified EmptyOK OpsOK
CHECK_DEADLOCK FALSE
