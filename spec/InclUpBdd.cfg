CONSTANTS MaxR = 2  AlphaName = "abgf"  RevSubsume = FALSE  NoFinalCheck = FALSE  UnionChildren = FALSE  NoProcCandidate = FALSE  ImpliedByWorkset = FALSE  BFamily = "all2"
SPECIFICATION Spec
INVARIANT Exact Sound Complete WorksetKnown
CHECK_DEADLOCK FALSE
