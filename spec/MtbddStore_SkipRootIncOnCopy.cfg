CONSTANTS NH = 3  MaxSteps = 6  SkipRootIncOnCopy = TRUE  SkipChildIncOnSpawn = FALSE  AssignNoSelfCheck = FALSE  SkipDispose = FALSE  Emit = FALSE
SPECIFICATION Spec
VIEW view
INVARIANT ObsInvK
CHECK_DEADLOCK FALSE
