-------------------------------- MODULE SimEnc --------------------------------
(***************************************************************************)
(* Layer 2 (C04): the two encodings of a tree automaton as a labelled      *)
(* transition system through which libvata computes its simulations        *)
(* (explicit_tree_transl.hh, explicit_tree_sim.cc), as written:            *)
(*                                                                         *)
(* TranslateDownward(n, idx):  states idx[q] < n for the automaton's       *)
(*   states, one auxiliary state per DISTINCT child tuple of length # 1    *)
(*   (the empty tuple of the leaf rules included);  q -a-> p for a unary   *)
(*   rule a(p) -> q ("inline lhs of size 1"), q -a-> t(kids) otherwise,    *)
(*   t(kids) -(pos i)-> kids[i];  the engine is started with ALL pairs.    *)
(* TranslateUpward(idx), identity parameter relation:  one extra "leaf"    *)
(*   state; leaf -a-> q for a -> q;  p -a-> q for a(p) -> q;  for every    *)
(*   rule of rank >= 2 and every position i an ENVIRONMENT                 *)
(*   <<kids without i, i, a, parent>> with  kids[i] -in-> env  and         *)
(*   env -a-> parent;  initial partition: final states | other states |    *)
(*   leaf | environments grouped by (kids without i, i, a);  initial       *)
(*   relation: q <= r unless q final and r not; leaf <= leaf; env <= env'  *)
(*   iff same group.                                                       *)
(* The result is the engine's greatest simulation inside that relation,    *)
(* read for the automaton's states through idx.                            *)
(*                                                                         *)
(* Checked for EVERY automaton of the bound and EVERY numbering idx:       *)
(*   DownExact:  result = TA!DownSimOn(A, 0..NQ-1)                         *)
(*   UpExact:    result = TA!UpSim(A) when A is trimmed and every state    *)
(*               owns a rule (the domain the code documents).              *)
(* Mutants (each must be refuted; its counterexamples become killers):     *)
(*   DoubleIdx     env -a-> idx[idx[parent]]  (defect D2 before its repair)*)
(*   EnvNoParent   environments differing only in the parent are merged    *)
(*                 (one parent edge survives)                               *)
(*   EnvNoIndex    the initial relation on environments ignores i          *)
(*   OneBlock      no final / non-final split in the initial relation      *)
(*   SkipLeaf      downward: leaf rules produce no edge                    *)
(*   SharedPos     downward: every position uses the same label            *)
(***************************************************************************)
EXTENDS TA, TLC, Json, FiniteSetsExt
CONSTANTS MaxR, NQ, Rank3, DoubleIdx, EnvNoParent, EnvNoIndex, OneBlock, SkipLeaf, SharedPos

Alpha == {<<"a", 0>>, <<"b", 0>>, <<"g", 1>>, <<"f", 2>>} \cup (IF Rank3 THEN {<<"h", 3>>} ELSE {})
Tuples(Q, n) == IF n = 0 THEN {<<>>} ELSE IF n = 1 THEN {<<q>> : q \in Q}
                ELSE IF n = 2 THEN {<<p, q>> : p \in Q, q \in Q} ELSE {<<p, q, r>> : p \in Q, q \in Q, r \in Q}
AllRules(Q) == UNION {{<<s[1], k, q>> : k \in Tuples(Q, s[2]), q \in Q} : s \in Alpha}
QS == 0..(NQ - 1)
Auts == {[fin |-> F, rules |-> R] : F \in SUBSET QS, R \in UNION {kSubset(k, AllRules(QS)) : k \in 0..MaxR}}
Perms == {f \in [QS -> QS] : \A x \in QS : \A y \in QS : f[x] = f[y] => x = y}

\* greatest simulation of an edge set inside R0 (the engine's contract, LTS.tla / C16; modelled step by step in LtsSim.tla)
StepOK(E, R, q, r) == \A e \in {x \in E : x[1] = q} : \E f \in E : f[1] = r /\ f[2] = e[2] /\ <<e[3], f[3]>> \in R
RECURSIVE Gfp(_, _)
Gfp(E, R) == LET R2 == {p \in R : StepOK(E, R, p[1], p[2])} IN IF R2 = R THEN R ELSE Gfp(E, R2)

(***************************************************************************)
(* Downward encoding.  LTS states: <<"q", idx[q]>> and <<"t", kids>>.      *)
(***************************************************************************)
St(i) == <<"q", i>>
DownEncOn(A, idx, Q) ==
  LET rs  == IF SkipLeaf THEN {r \in A.rules : Len(r[2]) > 0} ELSE A.rules
      aux == {r[2] : r \in {x \in rs : Len(x[2]) # 1}}
      E1  == {<<St(idx[r[3]]), <<"s", RSym(r)>>, IF Len(r[2]) = 1 THEN St(idx[r[2][1]]) ELSE <<"t", r[2]>>>> : r \in rs}
      E2  == UNION {{<<<<"t", k>>, <<"c", IF SharedPos THEN 0 ELSE i>>, St(idx[k[i]])>> : i \in 1..Len(k)} : k \in aux}
  IN [states |-> {St(idx[q]) : q \in Q} \cup {<<"t", k>> : k \in aux}, edges |-> E1 \cup E2]
DownEnc(A, idx) == DownEncOn(A, idx, QS)
DownResult(A, idx) ==
  LET L == DownEnc(A, idx)  G == Gfp(L.edges, L.states \X L.states)
  IN {p \in QS \X QS : <<St(idx[p[1]]), St(idx[p[2]])>> \in G}

(***************************************************************************)
(* Upward encoding.  LTS states: numbers, "leaf", environments.            *)
(***************************************************************************)
Without(k, i) == [j \in 1..(Len(k) - 1) |-> IF j < i THEN k[j] ELSE k[j + 1]]
EnvOf(r, i) == [kids |-> Without(r[2], i), pos |-> i, sym |-> RSym(r), par |-> r[3]]
EnvKey(e) == IF EnvNoParent THEN <<"e", e.kids, e.pos, e.sym>> ELSE <<"e", e.kids, e.pos, e.sym, e.par>>
UpEncOn(A, idx, Q) ==
  LET big  == {r \in A.rules : Len(r[2]) >= 2}
      envs == UNION {{EnvOf(r, i) : i \in 1..Len(r[2])} : r \in big}
      keys == {EnvKey(e) : e \in envs}
      \* with EnvNoParent the map keeps the first environment inserted under a key: one parent edge survives
      rep(k) == CHOOSE e \in envs : EnvKey(e) = k
      parOf(p) == IF DoubleIdx THEN idx[idx[p]] ELSE idx[p]
      E0 == {<<<<"leaf">>, <<"s", RSym(r)>>, St(idx[r[3]])>> : r \in {x \in A.rules : Len(x[2]) = 0}}
      E1 == {<<St(idx[r[2][1]]), <<"s", RSym(r)>>, St(idx[r[3]])>> : r \in {x \in A.rules : Len(x[2]) = 1}}
      E2 == UNION {{<<St(idx[r[2][i]]), <<"in", 0>>, EnvKey(EnvOf(r, i))>> : i \in 1..Len(r[2])} : r \in big}
      E3 == {<<k, <<"s", rep(k).sym>>, St(parOf(rep(k).par))>> : k \in keys}
      QI == {St(idx[q]) : q \in Q}
      S  == QI \cup {<<"leaf">>} \cup keys
      finI == {St(idx[q]) : q \in A.fin}
      R0 == {p \in S \X S :
               \/ p[1] \in QI /\ p[2] \in QI /\ (OneBlock \/ (p[1] \in finI => p[2] \in finI))
               \/ p[1] = <<"leaf">> /\ p[2] = <<"leaf">>
               \/ /\ p[1] \in keys /\ p[2] \in keys
                  /\ p[1][2] = p[2][2] /\ p[1][4] = p[2][4] /\ (EnvNoIndex \/ p[1][3] = p[2][3])}
  IN [states |-> S, edges |-> E0 \cup E1 \cup E2 \cup E3, init |-> R0, envs |-> keys]
UpEnc(A, idx) == UpEncOn(A, idx, QS)
UpResult(A, idx) ==
  LET L == UpEnc(A, idx)  G == Gfp(L.edges, L.init)
  IN {p \in QS \X QS : <<St(idx[p[1]]), St(idx[p[2]])>> \in G}
UpDomain(A) == IsTrim(A) /\ States(A) = RuleStates(A) /\ States(A) = QS

VARIABLES A, idx, down, up, done
vars == <<A, idx, down, up, done>>
Init == A \in Auts /\ idx \in Perms /\ down = {} /\ up = {} /\ done = FALSE
Compute == /\ ~done /\ done' = TRUE
           /\ down' = DownResult(A, idx)
           /\ up' = IF UpDomain(A) THEN UpResult(A, idx) ELSE {}
           /\ UNCHANGED <<A, idx>>
Next == Compute
Spec == Init /\ [][Next]_vars

Done == done
DownExact == Done => down = DownSimOn(A, QS)
UpExact == (Done /\ UpDomain(A)) => up = UpSim(A)
Killer == PrintT(<<"KILLER", ToJson([A |-> A, idx |-> idx])>>)
DownK == DownExact \/ (Killer /\ FALSE)
UpK == UpExact \/ (Killer /\ FALSE)
=============================================================================
