CONSTANTS MaxR = 3  NQ = 3  NonSymmetric = TRUE  UseUpSim = FALSE  NoUnreach = FALSE
INIT Init
NEXT Next
INVARIANT PostK
CHECK_DEADLOCK FALSE
