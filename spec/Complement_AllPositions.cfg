CONSTANTS MaxR = 3  NQ = 2  UsePre = FALSE  LeafAlways = FALSE  NoRuleOnEmptyW = FALSE  AllPositions = TRUE  KeepMinimal = FALSE
INIT Init
NEXT Next
INVARIANT PostK
CHECK_DEADLOCK FALSE
