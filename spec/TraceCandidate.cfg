CONSTANTS MaxR = 0  NQ = 1  ExitBeforeRecord = FALSE  MultisetChildren = FALSE  NoLeafWork = FALSE
SPECIFICATION TSpec
POSTCONDITION TraceAccepted
CHECK_DEADLOCK FALSE
