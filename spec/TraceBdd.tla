------------------------------ MODULE TraceBdd ------------------------------
(***************************************************************************)
(* Trace specification for C08: histories of BDD-encoded tree automata     *)
(* (bottom-up or top-down encoding) that may share one transition table.   *)
(* Spec state: val[h] = the abstract automaton a live handle denotes (as   *)
(* last dumped).  Every line is one operation; its result must satisfy the *)
(* language contract of the operation on the current operand values, and   *)
(* EVERY other live automaton must still denote the same language          *)
(* (operands are never disturbed - although copies share a table and the   *)
(* dump of an operand may legitimately show additional unreachable rules). *)
(***************************************************************************)
EXTENDS TA, TLC, Json, IOUtils

Tr == ndJsonDeserialize(IOEnv.TRACE)
HN == {"b0", "b1", "b2", "b3", "t0", "t1", "t2", "t3"}
Bname(i) == <<"b0", "b1", "b2", "b3">>[i + 1]
Tname(i) == <<"t0", "t1", "t2", "t3">>[i + 1]
VARIABLES val, l
tvars == <<val, l>>
Rng(f) == {f[x] : x \in DOMAIN f}
Has(e, k) == k \in DOMAIN e
ToAut(j) == [fin |-> Rng(j.fin), rules |-> Rng(j.rules)]
DeadV == [alive |-> FALSE, aut |-> EmptyAut]
LiveV(a) == [alive |-> TRUE, aut |-> a]
E == Tr[l]
I == Bname(E.i)
J == Bname(E.j)
K == Bname(E.k)
Logged(h) == IF Has(E.live, h) THEN LiveV(ToAut(E.live[h])) ELSE DeadV
SameLang(a, b) == a = b \/ LangEq(a, b)
\* target t gets the logged value; every other handle must keep its liveness and its language
Step(t) == /\ val' = [h \in HN |-> Logged(h)]
           /\ \A h \in HN \ {t} : /\ val'[h].alive = val[h].alive
                                  /\ val[h].alive => SameLang(val'[h].aut, val[h].aut)
New(t) == ~val[t].alive /\ val'[t].alive
IsEvent(op) == l <= Len(Tr) /\ Tr[l].op = op /\ l' = l + 1

TInit == val = [h \in HN |-> DeadV] /\ l = 1
TReset   == IsEvent("Reset") /\ val' = [h \in HN |-> DeadV]
TLoad    == IsEvent("load")    /\ Step(I) /\ New(I) /\ SameLang(val'[I].aut, ToAut(E.aut))
TCopy    == IsEvent("copy")    /\ Step(I) /\ New(I) /\ val[J].alive /\ SameLang(val'[I].aut, val[J].aut)
TAssign  == IsEvent("assign")  /\ Step(I) /\ val[I].alive /\ val[J].alive /\ val'[I].alive /\ SameLang(val'[I].aut, val[J].aut)
\* SetStateFinal on one handle (copies share the table, but final states belong to the automaton)
TFinal   == IsEvent("final")   /\ Step(I) /\ val[I].alive /\ val'[I].alive
            /\ LangEq(val'[I].aut, [fin |-> val[I].aut.fin \cup {E.q}, rules |-> val[I].aut.rules])
TDestroy == IsEvent("destroy") /\ Step(I) /\ val[I].alive /\ ~val'[I].alive
TTDestroy == IsEvent("tdestroy") /\ Step(Tname(E.i)) /\ val[Tname(E.i)].alive /\ ~val'[Tname(E.i)].alive
TUnion   == IsEvent("union")   /\ Step(I) /\ New(I) /\ val[J].alive /\ val[K].alive
            /\ LangEq(val'[I].aut, Union(val[J].aut, val[K].aut))
TUnionDisj == IsEvent("uniondisj") /\ Step(I) /\ New(I) /\ val[J].alive /\ val[K].alive
            /\ (States(val[J].aut) \cap States(val[K].aut) # {} \/ LangEq(val'[I].aut, DUnion(val[J].aut, val[K].aut)))
TIsect   == IsEvent("isect")   /\ Step(I) /\ New(I) /\ val[J].alive /\ val[K].alive
            /\ LangEq(val'[I].aut, Prod(val[J].aut, val[K].aut))
TUnreach == IsEvent("unreach") /\ Step(I) /\ New(I) /\ val[J].alive /\ LangEq(val'[I].aut, val[J].aut)
TUseless == IsEvent("useless") /\ Step(I) /\ New(I) /\ val[J].alive /\ LangEq(val'[I].aut, val[J].aut) /\ IsTrim(val'[I].aut)
TToTD    == IsEvent("totd")    /\ Step(Tname(E.i)) /\ New(Tname(E.i)) /\ val[J].alive /\ LangEq(val'[Tname(E.i)].aut, val[J].aut)
TNext == \/ TReset \/ TLoad \/ TFinal \/ TCopy \/ TAssign \/ TDestroy \/ TTDestroy \/ TUnion \/ TUnionDisj \/ TIsect
         \/ TUnreach \/ TUseless \/ TToTD
TSpec == TInit /\ [][TNext]_tvars
TraceAccepted ==
  LET d == TLCGet("stats").diameter IN
  IF d - 1 = Len(Tr) THEN TRUE ELSE PrintT(<<"TRACE-STUCK", d>>) /\ FALSE
=============================================================================
