SPECIFICATION TSpec
POSTCONDITION TraceAccepted
CHECK_DEADLOCK FALSE
