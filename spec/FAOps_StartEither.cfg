CONSTANTS NQ = 2  MaxE = 2  Ops = {"isect"}
  StartEither = TRUE  FinalEither = FALSE  NoFinalStart = FALSE  SymbolOfLeft = FALSE  KeepStartFinal = FALSE  ReachFromFinal = FALSE
SPECIFICATION Spec
INVARIANT PostK
CHECK_DEADLOCK FALSE
