---- MODULE CowStore_TTrace_1790425031 ----
EXTENDS Sequences, TLCExt, Toolbox, Naturals, TLC, CowStore

_expression ==
    LET CowStore_TEExpression == INSTANCE CowStore_TEExpression
    IN CowStore_TEExpression!expression
----

_trace ==
    LET CowStore_TETrace == INSTANCE CowStore_TETrace
    IN CowStore_TETrace!trace
----

_inv ==
    ~(
        TLCGet("level") = Len(_TETrace)
        /\
        hist = (<<<<"new", 2>>, <<"add", 2, <<"g", <<0>>, 0>>>>, <<"copyctor", 0, 2>>, <<"clear", 0>>>>)
        /\
        hfin = (<<{}, {}, {}>>)
        /\
        hmap = (<<1, 0, 1>>)
        /\
        maps = (<<(0 :> 0 @@ 1 :> 0), (0 :> 0 @@ 1 :> 0), (0 :> 0 @@ 1 :> 0)>>)
        /\
        clus = (<<[g |-> 1, a |-> 0], [g |-> 0, a |-> 0], [g |-> 0, a |-> 0], [g |-> 0, a |-> 0], [g |-> 0, a |-> 0]>>)
        /\
        exp = (<<[alive |-> TRUE, rules |-> {}, fin |-> {}], [alive |-> FALSE, rules |-> {}, fin |-> {}], [alive |-> TRUE, rules |-> {<<"g", <<0>>, 0>>}, fin |-> {}]>>)
        /\
        steps = (4)
        /\
        ts = (<<{<<0>>}, {}, {}, {}, {}>>)
    )
----

_init ==
    /\ steps = _TETrace[1].steps
    /\ hmap = _TETrace[1].hmap
    /\ maps = _TETrace[1].maps
    /\ hfin = _TETrace[1].hfin
    /\ clus = _TETrace[1].clus
    /\ exp = _TETrace[1].exp
    /\ hist = _TETrace[1].hist
    /\ ts = _TETrace[1].ts
----

_next ==
    /\ \E i,j \in DOMAIN _TETrace:
        /\ \/ /\ j = i + 1
              /\ i = TLCGet("level")
        /\ steps  = _TETrace[i].steps
        /\ steps' = _TETrace[j].steps
        /\ hmap  = _TETrace[i].hmap
        /\ hmap' = _TETrace[j].hmap
        /\ maps  = _TETrace[i].maps
        /\ maps' = _TETrace[j].maps
        /\ hfin  = _TETrace[i].hfin
        /\ hfin' = _TETrace[j].hfin
        /\ clus  = _TETrace[i].clus
        /\ clus' = _TETrace[j].clus
        /\ exp  = _TETrace[i].exp
        /\ exp' = _TETrace[j].exp
        /\ hist  = _TETrace[i].hist
        /\ hist' = _TETrace[j].hist
        /\ ts  = _TETrace[i].ts
        /\ ts' = _TETrace[j].ts

\* Uncomment the ASSUME below to write the states of the error trace
\* to the given file in Json format. Note that you can pass any tuple
\* to `JsonSerialize`. For example, a sub-sequence of _TETrace.
    \* ASSUME
    \*     LET J == INSTANCE Json
    \*         IN J!JsonSerialize("CowStore_TTrace_1790425031.json", _TETrace)

=============================================================================

 Note that you can extract this module `CowStore_TEExpression`
  to a dedicated file to reuse `expression` (the module in the 
  dedicated `CowStore_TEExpression.tla` file takes precedence 
  over the module `CowStore_TEExpression` below).

---- MODULE CowStore_TEExpression ----
EXTENDS Sequences, TLCExt, Toolbox, Naturals, TLC, CowStore

expression == 
    [
        \* To hide variables of the `CowStore` spec from the error trace,
        \* remove the variables below.  The trace will be written in the order
        \* of the fields of this record.
        steps |-> steps
        ,hmap |-> hmap
        ,maps |-> maps
        ,hfin |-> hfin
        ,clus |-> clus
        ,exp |-> exp
        ,hist |-> hist
        ,ts |-> ts
        
        \* Put additional constant-, state-, and action-level expressions here:
        \* ,_stateNumber |-> _TEPosition
        \* ,_stepsUnchanged |-> steps = steps'
        
        \* Format the `steps` variable as Json value.
        \* ,_stepsJson |->
        \*     LET J == INSTANCE Json
        \*     IN J!ToJson(steps)
        
        \* Lastly, you may build expressions over arbitrary sets of states by
        \* leveraging the _TETrace operator.  For example, this is how to
        \* count the number of times a spec variable changed up to the current
        \* state in the trace.
        \* ,_stepsModCount |->
        \*     LET F[s \in DOMAIN _TETrace] ==
        \*         IF s = 1 THEN 0
        \*         ELSE IF _TETrace[s].steps # _TETrace[s-1].steps
        \*             THEN 1 + F[s-1] ELSE F[s-1]
        \*     IN F[_TEPosition - 1]
    ]

=============================================================================



Parsing and semantic processing can take forever if the trace below is long.
 In this case, it is advised to uncomment the module below to deserialize the
 trace from a generated binary file.

\*
\*---- MODULE CowStore_TETrace ----
\*EXTENDS IOUtils, TLC, CowStore
\*
\*trace == IODeserialize("CowStore_TTrace_1790425031.bin", TRUE)
\*
\*=============================================================================
\*

---- MODULE CowStore_TETrace ----
EXTENDS TLC, CowStore

trace == 
    <<
    ([hist |-> <<>>,hfin |-> <<{}, {}, {}>>,hmap |-> <<0, 0, 0>>,maps |-> <<(0 :> 0 @@ 1 :> 0), (0 :> 0 @@ 1 :> 0), (0 :> 0 @@ 1 :> 0)>>,clus |-> <<[g |-> 0, a |-> 0], [g |-> 0, a |-> 0], [g |-> 0, a |-> 0], [g |-> 0, a |-> 0], [g |-> 0, a |-> 0]>>,exp |-> <<[alive |-> FALSE, rules |-> {}, fin |-> {}], [alive |-> FALSE, rules |-> {}, fin |-> {}], [alive |-> FALSE, rules |-> {}, fin |-> {}]>>,steps |-> 0,ts |-> <<{}, {}, {}, {}, {}>>]),
    ([hist |-> <<<<"new", 2>>>>,hfin |-> <<{}, {}, {}>>,hmap |-> <<0, 0, 1>>,maps |-> <<(0 :> 0 @@ 1 :> 0), (0 :> 0 @@ 1 :> 0), (0 :> 0 @@ 1 :> 0)>>,clus |-> <<[g |-> 0, a |-> 0], [g |-> 0, a |-> 0], [g |-> 0, a |-> 0], [g |-> 0, a |-> 0], [g |-> 0, a |-> 0]>>,exp |-> <<[alive |-> FALSE, rules |-> {}, fin |-> {}], [alive |-> FALSE, rules |-> {}, fin |-> {}], [alive |-> TRUE, rules |-> {}, fin |-> {}]>>,steps |-> 1,ts |-> <<{}, {}, {}, {}, {}>>]),
    ([hist |-> <<<<"new", 2>>, <<"add", 2, <<"g", <<0>>, 0>>>>>>,hfin |-> <<{}, {}, {}>>,hmap |-> <<0, 0, 1>>,maps |-> <<(0 :> 1 @@ 1 :> 0), (0 :> 0 @@ 1 :> 0), (0 :> 0 @@ 1 :> 0)>>,clus |-> <<[g |-> 1, a |-> 0], [g |-> 0, a |-> 0], [g |-> 0, a |-> 0], [g |-> 0, a |-> 0], [g |-> 0, a |-> 0]>>,exp |-> <<[alive |-> FALSE, rules |-> {}, fin |-> {}], [alive |-> FALSE, rules |-> {}, fin |-> {}], [alive |-> TRUE, rules |-> {<<"g", <<0>>, 0>>}, fin |-> {}]>>,steps |-> 2,ts |-> <<{<<0>>}, {}, {}, {}, {}>>]),
    ([hist |-> <<<<"new", 2>>, <<"add", 2, <<"g", <<0>>, 0>>>>, <<"copyctor", 0, 2>>>>,hfin |-> <<{}, {}, {}>>,hmap |-> <<1, 0, 1>>,maps |-> <<(0 :> 1 @@ 1 :> 0), (0 :> 0 @@ 1 :> 0), (0 :> 0 @@ 1 :> 0)>>,clus |-> <<[g |-> 1, a |-> 0], [g |-> 0, a |-> 0], [g |-> 0, a |-> 0], [g |-> 0, a |-> 0], [g |-> 0, a |-> 0]>>,exp |-> <<[alive |-> TRUE, rules |-> {<<"g", <<0>>, 0>>}, fin |-> {}], [alive |-> FALSE, rules |-> {}, fin |-> {}], [alive |-> TRUE, rules |-> {<<"g", <<0>>, 0>>}, fin |-> {}]>>,steps |-> 3,ts |-> <<{<<0>>}, {}, {}, {}, {}>>]),
    ([hist |-> <<<<"new", 2>>, <<"add", 2, <<"g", <<0>>, 0>>>>, <<"copyctor", 0, 2>>, <<"clear", 0>>>>,hfin |-> <<{}, {}, {}>>,hmap |-> <<1, 0, 1>>,maps |-> <<(0 :> 0 @@ 1 :> 0), (0 :> 0 @@ 1 :> 0), (0 :> 0 @@ 1 :> 0)>>,clus |-> <<[g |-> 1, a |-> 0], [g |-> 0, a |-> 0], [g |-> 0, a |-> 0], [g |-> 0, a |-> 0], [g |-> 0, a |-> 0]>>,exp |-> <<[alive |-> TRUE, rules |-> {}, fin |-> {}], [alive |-> FALSE, rules |-> {}, fin |-> {}], [alive |-> TRUE, rules |-> {<<"g", <<0>>, 0>>}, fin |-> {}]>>,steps |-> 4,ts |-> <<{<<0>>}, {}, {}, {}, {}>>])
    >>
----


=============================================================================

---- CONFIG CowStore_TTrace_1790425031 ----
CONSTANTS
    NH = 3
    NM = 3
    NC = 5
    NT = 5
    MaxSteps = 6
    SkipUniqueMap = FALSE
    SkipUniqueCluster = FALSE
    SkipUniqueTs = FALSE
    ClearInPlace = TRUE
    Emit = FALSE

INVARIANT
    _inv

CHECK_DEADLOCK
    \* CHECK_DEADLOCK off because of PROPERTY or INVARIANT above.
    FALSE

INIT
    _init

NEXT
    _next

CONSTANT
    _TETrace <- _trace

ALIAS
    _expression
=============================================================================
\* Generated on Sat Sep 26 12:17:13 UTC 2026