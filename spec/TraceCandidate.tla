---------------------------- MODULE TraceCandidate ----------------------------
(***************************************************************************)
(* Step-level binding of the Layer-2 model Candidate to the code:          *)
(* executions of GetCandidateTree recorded through the guarded hook        *)
(* (Start, one Pop per state taken from the work list) plus the automaton  *)
(* returned must be behaviours of the model: every logged Pop must take a  *)
(* state the model has on its work list, and the returned automaton must   *)
(* be the model's `out`.  The order in which a Pop looks at the rules is   *)
(* logged too (Visit events, folded into the Pop as `ord`): it must be an  *)
(* order over exactly the rules the model has waiting for that state, cut  *)
(* short only by the model's own early exit.  The missing-children sets,   *)
(* the recorded rules, the reached set and the `remaining` counter are NOT *)
(* logged.  Evidence only (DESIGN 2.7).                                    *)
(***************************************************************************)
EXTENDS Candidate, IOUtils
Tr == ndJsonDeserialize(IOEnv.TRACE)
VARIABLE l
tvars == <<A, reached, work, miss, recorded, remaining, found, out, done, l>>
Rng(f) == {f[x] : x \in DOMAIN f}
E == Tr[l]
ToAut(j) == [fin |-> Rng(j.fin), rules |-> {<<r[1], r[2], r[3]>> : r \in Rng(j.rules)}]
IsEvent(n) == l <= Len(Tr) /\ Tr[l].e = n /\ l' = l + 1

TInit == l = 1 /\ A = EmptyAut /\ reached = {} /\ work = {} /\ miss = <<>> /\ recorded = {} /\ remaining = 0
         /\ found = FALSE /\ out = EmptyAut /\ done = TRUE
TStart == /\ IsEvent("Start")
          /\ LET X == ToAut(E.A)  b == Begin(X) IN
             /\ A' = X /\ out' = EmptyAut /\ done' = FALSE /\ found' = FALSE
             /\ reached' = b.reached /\ work' = b.work /\ miss' = b.miss /\ recorded' = b.recorded /\ remaining' = b.remaining
\* the logged order: distinct rules the popped state is a missing child of
TPop == /\ IsEvent("Pop")
        /\ LET ord == [i \in 1..Len(E.ord) |-> <<E.ord[i][1], E.ord[i][2], E.ord[i][3]>>] IN
           /\ \A i \in 1..Len(ord) : ord[i] \in Users(E.q) /\ \A j \in 1..Len(ord) : ord[i] = ord[j] => i = j
           /\ PopOrd(E.q, ord)
TResult == /\ IsEvent("Result")
           /\ Finish
           /\ LET R == ToAut(E.R) IN out'.fin = R.fin /\ out'.rules = R.rules
TNext == TStart \/ TPop \/ TResult
TSpec == TInit /\ [][TNext]_tvars
TraceAccepted ==
  LET d == TLCGet("stats").diameter IN
  IF d - 1 = Len(Tr) THEN TRUE ELSE PrintT(<<"TRACE-STUCK", d>>) /\ FALSE
=============================================================================
