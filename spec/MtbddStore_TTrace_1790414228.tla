---- MODULE MtbddStore_TTrace_1790414228 ----
EXTENDS Sequences, TLCExt, Toolbox, Naturals, TLC, MtbddStore

_expression ==
    LET MtbddStore_TEExpression == INSTANCE MtbddStore_TEExpression
    IN MtbddStore_TEExpression!expression
----

_trace ==
    LET MtbddStore_TETrace == INSTANCE MtbddStore_TETrace
    IN MtbddStore_TETrace!trace
----

_inv ==
    ~(
        TLCGet("level") = Len(_TETrace)
        /\
        hist = (<<<<"mk", 0, <<2, 2, 2, 2>>, 0, 1>>, <<"copy", 1, 0>>, <<"destroy", 0>>>>)
        /\
        root = (<<<<"none">>, <<"L", 0>>, <<"none">>>>)
        /\
        fn = (<<<<0, 0, 0, 0>>, <<0, 0, 0, 0>>, <<0, 0, 0, 0>>>>)
        /\
        store = ({})
        /\
        steps = (3)
    )
----

_init ==
    /\ steps = _TETrace[1].steps
    /\ root = _TETrace[1].root
    /\ store = _TETrace[1].store
    /\ hist = _TETrace[1].hist
    /\ fn = _TETrace[1].fn
----

_next ==
    /\ \E i,j \in DOMAIN _TETrace:
        /\ \/ /\ j = i + 1
              /\ i = TLCGet("level")
        /\ steps  = _TETrace[i].steps
        /\ steps' = _TETrace[j].steps
        /\ root  = _TETrace[i].root
        /\ root' = _TETrace[j].root
        /\ store  = _TETrace[i].store
        /\ store' = _TETrace[j].store
        /\ hist  = _TETrace[i].hist
        /\ hist' = _TETrace[j].hist
        /\ fn  = _TETrace[i].fn
        /\ fn' = _TETrace[j].fn

\* Uncomment the ASSUME below to write the states of the error trace
\* to the given file in Json format. Note that you can pass any tuple
\* to `JsonSerialize`. For example, a sub-sequence of _TETrace.
    \* ASSUME
    \*     LET J == INSTANCE Json
    \*         IN J!JsonSerialize("MtbddStore_TTrace_1790414228.json", _TETrace)

=============================================================================

 Note that you can extract this module `MtbddStore_TEExpression`
  to a dedicated file to reuse `expression` (the module in the 
  dedicated `MtbddStore_TEExpression.tla` file takes precedence 
  over the module `MtbddStore_TEExpression` below).

---- MODULE MtbddStore_TEExpression ----
EXTENDS Sequences, TLCExt, Toolbox, Naturals, TLC, MtbddStore

expression == 
    [
        \* To hide variables of the `MtbddStore` spec from the error trace,
        \* remove the variables below.  The trace will be written in the order
        \* of the fields of this record.
        steps |-> steps
        ,root |-> root
        ,store |-> store
        ,hist |-> hist
        ,fn |-> fn
        
        \* Put additional constant-, state-, and action-level expressions here:
        \* ,_stateNumber |-> _TEPosition
        \* ,_stepsUnchanged |-> steps = steps'
        
        \* Format the `steps` variable as Json value.
        \* ,_stepsJson |->
        \*     LET J == INSTANCE Json
        \*     IN J!ToJson(steps)
        
        \* Lastly, you may build expressions over arbitrary sets of states by
        \* leveraging the _TETrace operator.  For example, this is how to
        \* count the number of times a spec variable changed up to the current
        \* state in the trace.
        \* ,_stepsModCount |->
        \*     LET F[s \in DOMAIN _TETrace] ==
        \*         IF s = 1 THEN 0
        \*         ELSE IF _TETrace[s].steps # _TETrace[s-1].steps
        \*             THEN 1 + F[s-1] ELSE F[s-1]
        \*     IN F[_TEPosition - 1]
    ]

=============================================================================



Parsing and semantic processing can take forever if the trace below is long.
 In this case, it is advised to uncomment the module below to deserialize the
 trace from a generated binary file.

\*
\*---- MODULE MtbddStore_TETrace ----
\*EXTENDS IOUtils, TLC, MtbddStore
\*
\*trace == IODeserialize("MtbddStore_TTrace_1790414228.bin", TRUE)
\*
\*=============================================================================
\*

---- MODULE MtbddStore_TETrace ----
EXTENDS TLC, MtbddStore

trace == 
    <<
    ([hist |-> <<>>,root |-> <<<<"none">>, <<"none">>, <<"none">>>>,fn |-> <<<<0, 0, 0, 0>>, <<0, 0, 0, 0>>, <<0, 0, 0, 0>>>>,store |-> {},steps |-> 0]),
    ([hist |-> <<<<"mk", 0, <<2, 2, 2, 2>>, 0, 1>>>>,root |-> <<<<"L", 0>>, <<"none">>, <<"none">>>>,fn |-> <<<<0, 0, 0, 0>>, <<0, 0, 0, 0>>, <<0, 0, 0, 0>>>>,store |-> {<<<<"L", 0>>, 1>>},steps |-> 1]),
    ([hist |-> <<<<"mk", 0, <<2, 2, 2, 2>>, 0, 1>>, <<"copy", 1, 0>>>>,root |-> <<<<"L", 0>>, <<"L", 0>>, <<"none">>>>,fn |-> <<<<0, 0, 0, 0>>, <<0, 0, 0, 0>>, <<0, 0, 0, 0>>>>,store |-> {<<<<"L", 0>>, 1>>},steps |-> 2]),
    ([hist |-> <<<<"mk", 0, <<2, 2, 2, 2>>, 0, 1>>, <<"copy", 1, 0>>, <<"destroy", 0>>>>,root |-> <<<<"none">>, <<"L", 0>>, <<"none">>>>,fn |-> <<<<0, 0, 0, 0>>, <<0, 0, 0, 0>>, <<0, 0, 0, 0>>>>,store |-> {},steps |-> 3])
    >>
----


=============================================================================

---- CONFIG MtbddStore_TTrace_1790414228 ----
CONSTANTS
    NH = 3
    MaxSteps = 6
    SkipRootIncOnCopy = TRUE
    SkipChildIncOnSpawn = FALSE
    AssignNoSelfCheck = FALSE
    SkipDispose = FALSE
    Emit = FALSE

INVARIANT
    _inv

CHECK_DEADLOCK
    \* CHECK_DEADLOCK off because of PROPERTY or INVARIANT above.
    FALSE

INIT
    _init

NEXT
    _next

CONSTANT
    _TETrace <- _trace

ALIAS
    _expression
=============================================================================
\* Generated on Sat Sep 26 09:17:10 UTC 2026