CONSTANTS MaxRA = 2  MaxRB = 2  NQ = 2  Mode = "td"  SelfLoopAlways = FALSE  FinalAtLeavesOnly = FALSE  NoRepush = FALSE  FirstFinalOnly = TRUE  PushNever = FALSE
SPECIFICATION Spec
INVARIANT PostK
CHECK_DEADLOCK FALSE
