CONSTANTS MaxR = 3  AlphaName = "abf"  RevSubsume = FALSE  NoFinalCheck = FALSE  UnionChildren = TRUE  FirstPosOnly = FALSE  BFamily = "all2"
SPECIFICATION Spec
INVARIANT ExactK
CHECK_DEADLOCK FALSE
