CONSTANTS MaxR = 3  AlphaName = "abf"  RevSubsume = FALSE  NoFinalCheck = FALSE  UnionChildren = TRUE
SPECIFICATION Spec
INVARIANT ExactK
CHECK_DEADLOCK FALSE
