CONSTANTS MaxR = 3  NQ = 2  ExitBeforeRecord = FALSE  MultisetChildren = FALSE  NoLeafWork = TRUE
SPECIFICATION Spec
INVARIANT PostK
CHECK_DEADLOCK FALSE
