CONSTANTS NH = 3  NM = 3  NC = 5  NT = 5  MaxSteps = 4
  SkipUniqueMap = FALSE  SkipUniqueCluster = FALSE  SkipUniqueTs = FALSE  ClearInPlace = FALSE  Emit = TRUE
SPECIFICATION Spec
VIEW view
INVARIANT Refines EmitHist
CHECK_DEADLOCK FALSE
