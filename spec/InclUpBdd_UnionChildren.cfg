CONSTANTS MaxR = 3  AlphaName = "abf"  RevSubsume = FALSE  NoFinalCheck = FALSE  UnionChildren = TRUE  NoProcCandidate = FALSE  ImpliedByWorkset = FALSE  BFamily = "leaf3"
SPECIFICATION Spec
INVARIANT ExactK
CHECK_DEADLOCK FALSE
