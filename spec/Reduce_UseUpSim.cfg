CONSTANTS MaxR = 3  NQ = 3  NonSymmetric = FALSE  UseUpSim = TRUE  NoUnreach = FALSE
INIT Init
NEXT Next
INVARIANT PostK
CHECK_DEADLOCK FALSE
