CONSTANTS NB = 3  MaxEB = 3  AKind = "four"  Order = "depth"  EmptyUncached = TRUE  MemoBySetOnly = FALSE  KeepPopped = TRUE  InitNoFinalCheck = FALSE  DropHalfEmpty = FALSE
SPECIFICATION Spec
INVARIANT ExactK
CHECK_DEADLOCK FALSE
