CONSTANTS NH = 3  NM = 3  NC = 5  NT = 5  MaxSteps = 6
  SkipUniqueMap = FALSE  SkipUniqueCluster = TRUE  SkipUniqueTs = FALSE  ClearInPlace = FALSE  Emit = FALSE
SPECIFICATION Spec
VIEW view
INVARIANT RefinesK
CHECK_DEADLOCK FALSE
