CONSTANTS NB = 2  MaxEB = 3  AKind = "four"  Order = "depth"  EmptyUncached = TRUE  MemoBySetOnly = FALSE  KeepPopped = FALSE  InitNoFinalCheck = FALSE  DropHalfEmpty = FALSE
SPECIFICATION TSpec
POSTCONDITION TraceAccepted
CHECK_DEADLOCK FALSE
