CONSTANTS MaxR = 3  NQ = 3  SizeCompare = FALSE  ArityDecrement = FALSE  EarlyExit = TRUE
SPECIFICATION Spec
INVARIANT PostK
CHECK_DEADLOCK FALSE
