CONSTANTS MaxR = 3  AlphaName = "abf"  RevSubsume = FALSE  NoFinalCheck = FALSE  UnionChildren = FALSE  FirstPosOnly = FALSE  BFamily = "leaf3"
SPECIFICATION Spec
INVARIANT Exact Sound Complete
CHECK_DEADLOCK FALSE
