CONSTANTS MaxR = 2  AlphaName = "abgf"  RevSubsume = FALSE  NoFinalCheck = FALSE  UnionChildren = FALSE  FirstPosOnly = FALSE  BFamily = "all2"
SPECIFICATION Spec
INVARIANT Exact Sound Complete
CHECK_DEADLOCK FALSE
