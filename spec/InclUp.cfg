CONSTANTS MaxR = 2  AlphaName = "abgf"  RevSubsume = FALSE  NoFinalCheck = FALSE  UnionChildren = FALSE
SPECIFICATION Spec
INVARIANT Exact Sound Complete
CHECK_DEADLOCK FALSE
