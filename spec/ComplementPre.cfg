CONSTANTS MaxR = 3  NQ = 2  UsePre = TRUE  LeafAlways = FALSE  NoRuleOnEmptyW = FALSE  AllPositions = FALSE  KeepMinimal = FALSE
INIT Init
NEXT Next
INVARIANT ComplPost
CHECK_DEADLOCK FALSE
