----------------------------- MODULE TraceTimbuk -----------------------------
(***************************************************************************)
(* C13: judges recorded parser / loader / dumper outcomes.                 *)
(*  rt  : text = Ser(desc, variant).  Parse(text) has the final states and *)
(*        rules of desc; for the explicit, BDD bottom-up and BDD top-down  *)
(*        encodings Parse(Dump(Load(text))) has them too and a second      *)
(*        dump-load round trip changes nothing (same state names); for the *)
(*        finite-automaton encoding (descriptions of rank <= 1) the same   *)
(*        modulo the symbols of the nullary start rules.  "explf" is the   *)
(*        explicit encoding loading into an alphabet that was COPIED from  *)
(*        one already holding other symbols.                               *)
(*  bad : arbitrary text: every parser / loader call either succeeds or    *)
(*        throws a std::exception (crash, hang and foreign exceptions are  *)
(*        failures).                                                       *)
(***************************************************************************)
EXTENDS TLC, Json, IOUtils, Naturals, Sequences, FiniteSets

Tr == ndJsonDeserialize(IOEnv.TRACE)
Rng(f) == {f[x] : x \in DOMAIN f}
Why(b, s) == IF b THEN {} ELSE {s}
IsStd(o) == o = "ok" \/ (Len(o) >= 4 /\ SubSeq(o, 1, 4) = "std:")
Encs == {"expl", "bu", "td", "fa"}
EncsOf(e) == Encs \cup ({"explf"} \cap DOMAIN e.res.enc)

SameRT(x, d) == Rng(x.fin) = Rng(d.fin) /\ Rng(x.trans) = Rng(d.trans)
\* finite automata: the symbol of a nullary (start) rule is not part of the value
FaView(x) == [fin |-> Rng(x.fin), start |-> {t[3] : t \in {u \in Rng(x.trans) : Len(u[2]) = 0}},
              edges |-> {u \in Rng(x.trans) : Len(u[2]) = 1}]
RtFails(e) ==
  LET d == e.desc
      maxRank == IF Rng(d.trans) = {} THEN 0 ELSE CHOOSE n \in {Len(t[2]) : t \in Rng(d.trans)} : \A t \in Rng(d.trans) : Len(t[2]) <= n
  IN Why(e.res.parse.outcome = "ok", "parse-rejects-valid-text")
     \cup (IF e.res.parse.outcome = "ok" THEN Why(SameRT(e.res.parse.desc, d), "parse-roundtrip") ELSE {})
     \* the serialiser applied to the PARSED description (ranks as the parser stored them) must be readable again
     \cup (IF e.res.parse.outcome = "ok" /\ "reser" \in DOMAIN e.res.parse
           THEN Why(e.res.parse.reser.outcome = "ok", "parse-rejects-own-serialisation")
                \cup (IF e.res.parse.reser.outcome = "ok" THEN Why(SameRT(e.res.parse.reser.desc, d), "serialise-parse-roundtrip") ELSE {})
           ELSE {})
     \cup UNION {LET r == e.res.enc[k] IN
                 Why(r.outcome = "ok", k \o "-rejects-valid-text")
                 \cup (IF r.outcome = "ok" THEN Why(SameRT(r.d1, d), k \o "-load-dump") \cup Why(SameRT(r.d2, r.d1), k \o "-dump-load-dump") ELSE {})
                 : k \in {"expl", "bu", "td"} \cup ({"explf"} \cap DOMAIN e.res.enc)}
     \cup (LET r == e.res.enc["fa"] IN
           IF maxRank > 1 THEN Why(IsStd(r.outcome), "fa-nonstd")
           ELSE Why(r.outcome = "ok", "fa-rejects-valid-text")
                \cup (IF r.outcome = "ok" THEN Why(FaView(r.d1) = FaView(d), "fa-load-dump") \cup Why(FaView(r.d2) = FaView(r.d1), "fa-dump-load-dump") ELSE {}))
BadFails(e) ==
  Why(IsStd(e.res.parse.outcome), "parse-nonstd") \cup UNION {Why(IsStd(e.res.enc[k].outcome), k \o "-nonstd") : k \in EncsOf(e)}

Fails(e) ==
  IF e.outcome # "ok" THEN {"outcome:" \o e.outcome}
  ELSE IF e.mode = "rt" THEN RtFails(e) ELSE BadFails(e)

VARIABLE l
Init == l \in 1..Len(Tr)
Next == UNCHANGED l
EventOK == LET f == Fails(Tr[l]) IN f = {} \/ (PrintT(<<"VFAIL", l, f>>) /\ FALSE)
=============================================================================
