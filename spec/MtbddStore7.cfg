CONSTANTS NH = 3  MaxSteps = 7  SkipRootIncOnCopy = FALSE  SkipChildIncOnSpawn = FALSE  AssignNoSelfCheck = FALSE  SkipDispose = FALSE  Emit = FALSE
SPECIFICATION Spec
VIEW view
INVARIANT StoreExact CountsExact Denotes
CHECK_DEADLOCK FALSE
