CONSTANTS MaxR = 3  AlphaName = "abf"  RevSubsume = FALSE  NoFinalCheck = FALSE  UnionChildren = FALSE  FirstPosOnly = TRUE  BFamily = "leaf3"
SPECIFICATION Spec
INVARIANT ExactK
CHECK_DEADLOCK FALSE
