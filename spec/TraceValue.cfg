CONSTANT HN = {"h0", "h1", "h2", "h3"}
SPECIFICATION TSpec
POSTCONDITION TraceAccepted
CHECK_DEADLOCK FALSE
