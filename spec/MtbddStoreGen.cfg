CONSTANTS NH = 3  MaxSteps = 4  SkipRootIncOnCopy = FALSE  SkipChildIncOnSpawn = FALSE  AssignNoSelfCheck = FALSE  SkipDispose = FALSE  Emit = TRUE
SPECIFICATION Spec
VIEW view
INVARIANT StoreExact CountsExact Denotes EmitHist
CHECK_DEADLOCK FALSE
