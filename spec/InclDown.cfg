CONSTANTS MaxR = 2  AlphaName = "abgf"  LeafAsWritten = FALSE  InheritCC = FALSE  HypAsFact = FALSE  Family = "all2"
INIT Init
NEXT Next
INVARIANT Exact NonInclSound
CHECK_DEADLOCK FALSE
