CONSTANTS NB = 3  MaxEB = 4  MemoConverse = TRUE  AKind = "loop"
SPECIFICATION Spec

PROPERTY Terminates
CHECK_DEADLOCK FALSE
