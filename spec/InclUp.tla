-------------------------------- MODULE InclUp --------------------------------
(***************************************************************************)
(* Layer 2 (C01): the upward antichain inclusion algorithm of              *)
(* explicit_tree_incl_up.cc (identity preorder; operands trimmed as        *)
(* SanitizeAutsForInclusion does) as a state machine:                      *)
(*   Init     leaf-count shortcut; leaf pairs <<q, post_B(a)>> inserted    *)
(*            into the antichains `processed` and `next`;                  *)
(*   Pick     ANY element of `next` is taken (the code's order depends on  *)
(*            hashing and numbering: every order is explored);             *)
(*   StepRule ANY rule of A that uses the picked state at some position is *)
(*            expanded next: the picked macro-state at that position, any  *)
(*            processed macro-state at the others; a pair with a final     *)
(*            state of A and no final state of B ends with FALSE; new      *)
(*            pairs go through the `temporary` antichain into processed    *)
(*            and next (contains / refine);                                *)
(*   Finish   next empty: TRUE.                                            *)
(* Checked for every pair of automata of the bound and every schedule:     *)
(*   Exact    the verdict equals TA!Incl(A,B);                             *)
(*   Sound    every processed pair is a genuine bottom-up pair;            *)
(*   Complete on TRUE the antichain covers all bottom-up pairs.            *)
(* Mutants: RevSubsume (subsumption test reversed in contains/refine),     *)
(* NoFinalCheck (forget to test new pairs), UnionChildren (unite the       *)
(* macro-states of a child instead of choosing one - the mistake the BDD   *)
(* variant tree_incl_up.hh made), FirstPosOnly (a rule with a repeated     *)
(* child is expanded only for the first position of the picked state).     *)
(***************************************************************************)
EXTENDS TA, TLC, Json, FiniteSetsExt
CONSTANTS MaxR, AlphaName, RevSubsume, NoFinalCheck, UnionChildren, FirstPosOnly, BFamily
Alpha == IF AlphaName = "abf" THEN {<<"a", 0>>, <<"b", 0>>, <<"f", 2>>}
         ELSE {<<"a", 0>>, <<"b", 0>>, <<"g", 1>>, <<"f", 2>>}
Tuples(Q, n) == IF n = 0 THEN {<<>>} ELSE IF n = 1 THEN {<<q>> : q \in Q} ELSE {<<p, q>> : p \in Q, q \in Q}
AllRules(Q) == UNION {{<<s[1], k, q>> : k \in Tuples(Q, s[2]), q \in Q} : s \in Alpha}
Auts(Q) == {[fin |-> F, rules |-> R] : F \in SUBSET Q, R \in UNION {kSubset(k, AllRules(Q)) : k \in 0..MaxR}}

\* the universe of B: "all2" = every automaton over states {2,3} with <= MaxR rules; "leaf3" = three states, the leaf rules
\* a -> 10, b -> 11 fixed, any <= 4 binary rules into the only final state 12 (5-6 rules: the shapes a 2-state B cannot have)
BUniverse == IF BFamily = "all2" THEN Auts({2, 3})
             ELSE {[fin |-> {12}, rules |-> {<<"a", <<>>, 10>>, <<"b", <<>>, 11>>} \cup R] :
                     R \in UNION {kSubset(k, {<<"f", <<p, q>>, 12>> : p \in {10, 11, 12}, q \in {10, 11, 12}}) : k \in 0..4}}

VARIABLES A, B, processed, next, cur, todo, verdict
vars == <<A, B, processed, next, cur, todo, verdict>>

LeafSyms(X) == {r[1] : r \in {x \in X.rules : Len(x[2]) = 0}}
Subsumes(S, T) == IF RevSubsume THEN T \subseteq S ELSE S \subseteq T     \* S is at least as strong an obligation as T
Covered(P, q, S) == \E p \in P : p[1] = q /\ Subsumes(p[2], S)
Insert(P, q, S) == IF Covered(P, q, S) THEN P ELSE {p \in P : ~(p[1] = q /\ Subsumes(S, p[2]))} \cup {<<q, S>>}
RECURSIVE InsertAll(_, _)
InsertAll(P, Xs) == IF Xs = {} THEN P ELSE LET x == CHOOSE y \in Xs : TRUE IN InsertAll(Insert(P, x[1], x[2]), Xs \ {x})
LeafPairs(A0, B0) == {<<r[3], PostB(B0, r[1], <<>>)>> : r \in {x \in A0.rules : Len(x[2]) = 0}}
Bad(X, Y, p) == p[1] \in X.fin /\ p[2] \cap Y.fin = {}

\* the leaf phase (Post of the empty tuple) on already trimmed operands
LeafPhase(At, Bt) ==
  LET LP == LeafPairs(At, Bt) IN
  /\ A = At /\ B = Bt /\ cur = <<>> /\ todo = {}
  /\ IF Cardinality(LeafSyms(Bt)) < Cardinality(LeafSyms(At)) THEN verdict = "F" /\ processed = {} /\ next = {}
     ELSE IF ~NoFinalCheck /\ \E p \in LP : Bad(At, Bt, p) THEN verdict = "F" /\ processed = {} /\ next = {}
     ELSE /\ verdict = "run" /\ processed = InsertAll({}, LP) /\ next = InsertAll({}, LP)
Init == \E A0 \in Auts({0, 1}), B0 \in BUniverse : LeafPhase(Trim(A0), Trim(B0))

Pick ==
  /\ verdict = "run" /\ cur = <<>> /\ next # {}
  /\ \E p \in next :
       /\ cur' = p /\ next' = next \ {p}
       /\ todo' = UNION {{<<r, j>> : j \in {i \in 1..Len(r[2]) : r[2][i] = p[1] /\ (FirstPosOnly => \A k \in 1..(i - 1) : r[2][k] # p[1])}} : r \in A.rules}
  /\ UNCHANGED <<A, B, processed, verdict>>

\* the macro-state tuples for rule r with cur fixed at position j
RECURSIVE Combos(_, _, _)
Combos(r, j, i) ==
  IF i > Len(r[2]) THEN {<<>>}
  ELSE LET here == IF i = j THEN {cur[2]}
                   ELSE IF UnionChildren THEN {UNION {p[2] : p \in {x \in processed : x[1] = r[2][i]}}}
                   ELSE {p[2] : p \in {x \in processed : x[1] = r[2][i]}}
           reachable == i = j \/ \E x \in processed : x[1] = r[2][i]
       IN IF ~reachable THEN {} ELSE UNION {{<<S>> \o c : c \in Combos(r, j, i + 1)} : S \in here}
Posts(r, j) == {PostB(B, r[1], c) : c \in Combos(r, j, 1)}

\* one rule visit; a post image that is EMPTY ends with FALSE as well (the operands are trimmed: a tree A can still extend
\* to an accepted one has no run in B at all)
StepRuleOf(x) ==
  /\ verdict = "run" /\ cur # <<>> /\ x \in todo
  /\ LET r == x[1]  ps == Posts(r, x[2]) IN
       /\ todo' = todo \ {x}
       /\ IF ~NoFinalCheck /\ \E S \in ps : S = {} \/ Bad(A, B, <<r[3], S>>)
          THEN verdict' = "F" /\ UNCHANGED <<processed, next>>
          ELSE LET new == {<<r[3], S>> : S \in ps}
                   tmp == InsertAll({}, new)
                   add == {p \in tmp : ~Covered(processed, p[1], p[2])}
                   P2 == InsertAll(processed, add)
               IN /\ processed' = P2
                  /\ next' = {p \in next : p \in P2} \cup (P2 \ processed)
                  /\ UNCHANGED verdict
  /\ UNCHANGED <<A, B, cur>>
StepRule == \E x \in todo : StepRuleOf(x)
EndPick == /\ verdict = "run" /\ cur # <<>> /\ todo = {} /\ cur' = <<>> /\ UNCHANGED <<A, B, processed, next, todo, verdict>>
Finish == /\ verdict = "run" /\ cur = <<>> /\ next = {} /\ verdict' = "T" /\ UNCHANGED <<A, B, processed, next, cur, todo>>
Next == Pick \/ StepRule \/ EndPick \/ Finish
Spec == Init /\ [][Next]_vars

Exact == verdict \in {"T", "F"} => ((verdict = "T") = Incl(A, B))
Sound == \A p \in processed : p \in BUPairs(A, B)
Complete == verdict = "T" => \A p \in BUPairs(A, B) : \E x \in processed : x[1] = p[1] /\ x[2] \subseteq p[2]
ExactK == Exact \/ (PrintT(<<"KILLER", ToJson([A |-> A, B |-> B])>>) /\ FALSE)
=============================================================================
