CONSTANTS NQ = 2  MaxE = 2  Ops = {"isect"}
  StartEither = FALSE  FinalEither = FALSE  NoFinalStart = FALSE  SymbolOfLeft = TRUE  KeepStartFinal = FALSE  ReachFromFinal = FALSE
SPECIFICATION Spec
INVARIANT PostK
CHECK_DEADLOCK FALSE
