------------------------------- MODULE InclUpBdd -------------------------------
(***************************************************************************)
(* Layer 2 (C07): the upward antichain inclusion of the BDD bottom-up      *)
(* encoding (tree_incl_up.hh + up_tree_incl_fctor.hh, identity preorder),  *)
(* as written after the repair of defect D9.  It differs from the explicit *)
(* algorithm (InclUp.tla) in what matters for correctness:                 *)
(*   - two antichains, `antichain` (everything known) and `workset` (what  *)
(*     is still to be processed), each with its own contains / refine; a   *)
(*     pair popped from the workset may meanwhile have been refined OUT of *)
(*     the antichain - it is processed all the same;                       *)
(*   - Pop takes ANY workset pair <<p, P>>; every rule tuple of A that     *)
(*     contains p and whose OTHER children all have an antichain entry is  *)
(*     expanded with, per position, ANY antichain entry of that child as   *)
(*     candidate, plus P itself at the positions of p (so combinations     *)
(*     that do not use P at all are recomputed - sound, redundant); the    *)
(*     candidates are COPIED before the rule is expanded: pairs the        *)
(*     expansion adds are seen by later rules of the same Pop only;        *)
(*   - a combination with an empty macro-state yields the empty tuple set: *)
(*     every symbol of the tuple then reaches <<parent, {}>>;              *)
(*   - per symbol the functor looks at every parent: not implied by the    *)
(*     antichain -> a final parent without a final state in the post image *)
(*     ends with FALSE, otherwise the pair is cached in both antichains;   *)
(*   - an empty post image is NOT a counterexample by itself (no leaf-     *)
(*     count shortcut, operands merely sanitised).                         *)
(* Checked for every pair of automata of the bound and every schedule      *)
(* (pop order, rule order inside a pop): Exact, Sound, Complete as in      *)
(* InclUp.  Mutants refuted: UnionChildren (one candidate per position:    *)
(* the UNION of the child's macro-states - defect D9), RevSubsume,         *)
(* NoFinalCheck.  Variants tried and NOT refuted on the bound (equivalent  *)
(* for safety; their cfgs are not kept): NoProcCandidate (the popped       *)
(* macro-state is not added to the candidates - whatever refined it out of *)
(* the antichain is a subset of it and is a candidate), ImpliedByWorkset   *)
(* (the functor asks the workset whether a pair is implied: more work,     *)
(* same verdict).                                                          *)
(***************************************************************************)
EXTENDS TA, TLC, Json, FiniteSetsExt
CONSTANTS MaxR, AlphaName, RevSubsume, NoFinalCheck, UnionChildren, NoProcCandidate, ImpliedByWorkset, BFamily
Alpha == IF AlphaName = "abf" THEN {<<"a", 0>>, <<"b", 0>>, <<"f", 2>>}
         ELSE {<<"a", 0>>, <<"b", 0>>, <<"g", 1>>, <<"f", 2>>}
Tuples(Q, n) == IF n = 0 THEN {<<>>} ELSE IF n = 1 THEN {<<q>> : q \in Q} ELSE {<<p, q>> : p \in Q, q \in Q}
AllRules(Q) == UNION {{<<s[1], k, q>> : k \in Tuples(Q, s[2]), q \in Q} : s \in Alpha}
Auts(Q) == {[fin |-> F, rules |-> R] : F \in SUBSET Q, R \in UNION {kSubset(k, AllRules(Q)) : k \in 0..MaxR}}

\* the universe of B: "all2" = every automaton over states {2,3} with <= MaxR rules; "leaf3" = three states, the leaf rules
\* a -> 10, b -> 11 fixed, any <= 4 binary rules into the only final state 12 (5-6 rules: the shapes a 2-state B cannot have)
BUniverse == IF BFamily = "all2" THEN Auts({2, 3})
             ELSE {[fin |-> {12}, rules |-> {<<"a", <<>>, 10>>, <<"b", <<>>, 11>>} \cup R] :
                     R \in UNION {kSubset(k, {<<"f", <<p, q>>, 12>> : p \in {10, 11, 12}, q \in {10, 11, 12}}) : k \in 0..4}}

VARIABLES A, B, antichain, workset, cur, todo, verdict
vars == <<A, B, antichain, workset, cur, todo, verdict>>

Subsumes(S, T) == IF RevSubsume THEN T \subseteq S ELSE S \subseteq T
Covered(P, q, S) == \E p \in P : p[1] = q /\ Subsumes(p[2], S)
Insert(P, q, S) == IF Covered(P, q, S) THEN P ELSE {p \in P : ~(p[1] = q /\ Subsumes(S, p[2]))} \cup {<<q, S>>}
Bad(X, Y, p) == p[1] \in X.fin /\ p[2] \cap Y.fin = {}

\* the functor on a set of <<parent, post image>> pairs, in any order (the outcome does not depend on it: see DESIGN I.1):
\* returns [ac, ws, fail]
RECURSIVE Feed(_, _, _, _)
Feed(ac, ws, fail, pairs) ==
  IF pairs = {} \/ fail THEN [ac |-> ac, ws |-> ws, fail |-> fail]
  ELSE LET x == CHOOSE y \in pairs : TRUE
           implied == Covered(IF ImpliedByWorkset THEN ws ELSE ac, x[1], x[2])
       IN IF implied THEN Feed(ac, ws, fail, pairs \ {x})
          ELSE IF ~NoFinalCheck /\ Bad(A, B, x) THEN Feed(ac, ws, TRUE, pairs \ {x})
          ELSE Feed(Insert(ac, x[1], x[2]), IF Covered(ac, x[1], x[2]) THEN ws ELSE Insert(ws, x[1], x[2]), fail, pairs \ {x})

\* rules of A grouped by child tuple: the algorithm walks tuples, the functor is called once per symbol of the tuple
TuplesOf(X) == {r[2] : r \in X.rules}
SymsAt(X, t) == {r[1] : r \in {x \in X.rules : x[2] = t}}
ParentsAt(X, t, a) == {r[3] : r \in {x \in X.rules : x[2] = t /\ x[1] = a}}

Init ==
  /\ A \in Auts({0, 1}) /\ B \in BUniverse /\ cur = <<>> /\ todo = {}
  /\ LET leafPairs == UNION {{<<q, PostB(B, a, <<>>)>> : q \in ParentsAt(A, <<>>, a)} : a \in SymsAt(A, <<>>)}
         r == Feed({}, {}, FALSE, leafPairs)
     IN antichain = r.ac /\ workset = r.ws /\ verdict = IF r.fail THEN "F" ELSE "run"

Pick ==
  /\ verdict = "run" /\ cur = <<>> /\ workset # {}
  /\ \E p \in workset :
       /\ cur' = p /\ workset' = workset \ {p}
       /\ todo' = {t \in TuplesOf(A) : \E i \in 1..Len(t) : t[i] = p[1]}
  /\ UNCHANGED <<A, B, antichain, verdict>>

\* candidate macro-states per position of the tuple t (copied from the antichain as it is when the rule is reached)
Cands(t, i) ==
  LET fromAc == {p[2] : p \in {x \in antichain : x[1] = t[i]}}
      all == IF t[i] = cur[1] /\ ~NoProcCandidate THEN fromAc \cup {cur[2]} ELSE fromAc
  IN IF UnionChildren THEN (IF all = {} THEN {} ELSE {UNION all}) ELSE all
RECURSIVE Combos(_, _)
Combos(t, i) == IF i > Len(t) THEN {<<>>} ELSE UNION {{<<S>> \o c : c \in Combos(t, i + 1)} : S \in Cands(t, i)}
StepTupleOf(t) ==
  /\ verdict = "run" /\ cur # <<>> /\ t \in todo
  /\ todo' = todo \ {t}
  /\ LET reachable == \A i \in 1..Len(t) : t[i] = cur[1] \/ \E x \in antichain : x[1] = t[i]
         pairs == UNION {UNION {{<<q, IF \E i \in 1..Len(c) : c[i] = {} THEN {} ELSE PostB(B, a, c)>> : q \in ParentsAt(A, t, a)}
                                : a \in SymsAt(A, t)} : c \in Combos(t, 1)}
         r == Feed(antichain, workset, FALSE, pairs)
     IN IF ~reachable THEN UNCHANGED <<antichain, workset, verdict>>
        ELSE /\ antichain' = r.ac /\ workset' = r.ws /\ verdict' = IF r.fail THEN "F" ELSE verdict
  /\ UNCHANGED <<A, B, cur>>
StepTuple == \E t \in todo : StepTupleOf(t)
EndPick == /\ verdict = "run" /\ cur # <<>> /\ todo = {} /\ cur' = <<>> /\ UNCHANGED <<A, B, antichain, workset, todo, verdict>>
Finish == /\ verdict = "run" /\ cur = <<>> /\ workset = {} /\ verdict' = "T" /\ UNCHANGED <<A, B, antichain, workset, cur, todo>>
Next == Pick \/ StepTuple \/ EndPick \/ Finish
Spec == Init /\ [][Next]_vars

Exact == verdict \in {"T", "F"} => ((verdict = "T") = Incl(A, B))
Sound == \A p \in antichain : p \in BUPairs(A, B)
Complete == verdict = "T" => \A p \in BUPairs(A, B) : \E x \in antichain : x[1] = p[1] /\ x[2] \subseteq p[2]
\* everything still to be processed is known
WorksetKnown == \A p \in workset : Covered(antichain, p[1], p[2])
ExactK == Exact \/ (PrintT(<<"KILLER", ToJson([A |-> A, B |-> B])>>) /\ FALSE)
=============================================================================
