CONSTANTS NQ = 2  MaxE = 1  Ops = {"isect"}
  StartEither = FALSE  FinalEither = FALSE  NoFinalStart = FALSE  SymbolOfLeft = FALSE  KeepStartFinal = FALSE  ReachFromFinal = FALSE
SPECIFICATION Spec
INVARIANT Post
CHECK_DEADLOCK FALSE
