------------------------------ MODULE TraceTrim ------------------------------
(***************************************************************************)
(* Step-level binding of the Layer-2 model Trim to the code: executions of *)
(* RemoveUnreachableStates / RemoveUselessStates recorded through the      *)
(* guarded hook (Start, one Pop per work-list element taken) plus the      *)
(* automaton returned must be behaviours of the model: every logged Pop    *)
(* must take a state the model has on its work list, and the returned      *)
(* automaton must be the model's `out` when its work list is empty.  The   *)
(* reach set, the pending children, the fired rules and the `remaining`    *)
(* counter are NOT logged.  Evidence only (DESIGN 2.7).                    *)
(***************************************************************************)
EXTENDS Trim, IOUtils
Tr == ndJsonDeserialize(IOEnv.TRACE)
VARIABLE l
tvars == <<A, mode, reach, work, pend, fired, remaining, out, l>>
Rng(f) == {f[x] : x \in DOMAIN f}
E == Tr[l]
ToAut(j) == [fin |-> Rng(j.fin), rules |-> {<<r[1], r[2], r[3]>> : r \in Rng(j.rules)}]
IsEvent(n) == l <= Len(Tr) /\ Tr[l].e = n /\ l' = l + 1

TInit == l = 1 /\ A = EmptyAut /\ mode = "idle" /\ reach = {} /\ work = {} /\ pend = <<>> /\ fired = {} /\ remaining = 0 /\ out = <<>>
TStart == /\ IsEvent("Start")
          /\ LET X == ToAut(E.A)  b == Begin(X, E.mode) IN
             /\ A' = X /\ mode' = E.mode /\ out' = <<>>
             /\ reach' = b.reach /\ work' = b.work /\ pend' = b.pend /\ fired' = b.fired /\ remaining' = b.remaining
TPop == IsEvent("Pop") /\ (PopUnreachOf(E.q) \/ PopUselessOf(E.q))
TResult == /\ IsEvent("Result")
           /\ (FinishUnreach \/ FinishUseless)
           /\ LET R == ToAut(E.R) IN out'.fin = R.fin /\ out'.rules = R.rules
TNext == TStart \/ TPop \/ TResult
TSpec == TInit /\ [][TNext]_tvars
TraceAccepted ==
  LET d == TLCGet("stats").diameter IN
  IF d - 1 = Len(Tr) THEN TRUE ELSE PrintT(<<"TRACE-STUCK", d>>) /\ FALSE
=============================================================================
