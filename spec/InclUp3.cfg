CONSTANTS MaxR = 3  AlphaName = "abf"  RevSubsume = FALSE  NoFinalCheck = FALSE  UnionChildren = FALSE  FirstPosOnly = FALSE  BFamily = "all2"
SPECIFICATION Spec
INVARIANT Exact Sound Complete
CHECK_DEADLOCK FALSE
