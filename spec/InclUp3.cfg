CONSTANTS MaxR = 3  AlphaName = "abf"  RevSubsume = FALSE  NoFinalCheck = FALSE  UnionChildren = FALSE
SPECIFICATION Spec
INVARIANT Exact Sound Complete
CHECK_DEADLOCK FALSE
