---- MODULE FAAntichain_TTrace_1790422352 ----
EXTENDS Sequences, TLCExt, Toolbox, FAAntichain, Naturals, TLC

_expression ==
    LET FAAntichain_TEExpression == INSTANCE FAAntichain_TEExpression
    IN FAAntichain_TEExpression!expression
----

_trace ==
    LET FAAntichain_TETrace == INSTANCE FAAntichain_TETrace
    IN FAAntichain_TETrace!trace
----

_inv ==
    ~(
        TLCGet("level") = Len(_TETrace)
        /\
        A = ([start |-> {0, 1}, fin |-> {0}, delta |-> {<<0, 0, 1>>, <<0, 1, 0>>, <<1, 0, 0>>}])
        /\
        sub = ({<<{10}, {10}>>, <<{12}, {10}>>})
        /\
        nsub = ({<<{10}, {10}>>, <<{10}, {12}>>})
        /\
        ac = ({<<0, {10}>>, <<1, {12}>>})
        /\
        B = ([start |-> {10}, fin |-> {10}, delta |-> {<<10, 0, 12>>, <<10, 1, 10>>, <<12, 0, 10>>}])
        /\
        verdict = ("T")
        /\
        nxt = ({})
    )
----

_init ==
    /\ nxt = _TETrace[1].nxt
    /\ ac = _TETrace[1].ac
    /\ A = _TETrace[1].A
    /\ B = _TETrace[1].B
    /\ sub = _TETrace[1].sub
    /\ nsub = _TETrace[1].nsub
    /\ verdict = _TETrace[1].verdict
----

_next ==
    /\ \E i,j \in DOMAIN _TETrace:
        /\ \/ /\ j = i + 1
              /\ i = TLCGet("level")
        /\ nxt  = _TETrace[i].nxt
        /\ nxt' = _TETrace[j].nxt
        /\ ac  = _TETrace[i].ac
        /\ ac' = _TETrace[j].ac
        /\ A  = _TETrace[i].A
        /\ A' = _TETrace[j].A
        /\ B  = _TETrace[i].B
        /\ B' = _TETrace[j].B
        /\ sub  = _TETrace[i].sub
        /\ sub' = _TETrace[j].sub
        /\ nsub  = _TETrace[i].nsub
        /\ nsub' = _TETrace[j].nsub
        /\ verdict  = _TETrace[i].verdict
        /\ verdict' = _TETrace[j].verdict

\* Uncomment the ASSUME below to write the states of the error trace
\* to the given file in Json format. Note that you can pass any tuple
\* to `JsonSerialize`. For example, a sub-sequence of _TETrace.
    \* ASSUME
    \*     LET J == INSTANCE Json
    \*         IN J!JsonSerialize("FAAntichain_TTrace_1790422352.json", _TETrace)

=============================================================================

 Note that you can extract this module `FAAntichain_TEExpression`
  to a dedicated file to reuse `expression` (the module in the 
  dedicated `FAAntichain_TEExpression.tla` file takes precedence 
  over the module `FAAntichain_TEExpression` below).

---- MODULE FAAntichain_TEExpression ----
EXTENDS Sequences, TLCExt, Toolbox, FAAntichain, Naturals, TLC

expression == 
    [
        \* To hide variables of the `FAAntichain` spec from the error trace,
        \* remove the variables below.  The trace will be written in the order
        \* of the fields of this record.
        nxt |-> nxt
        ,ac |-> ac
        ,A |-> A
        ,B |-> B
        ,sub |-> sub
        ,nsub |-> nsub
        ,verdict |-> verdict
        
        \* Put additional constant-, state-, and action-level expressions here:
        \* ,_stateNumber |-> _TEPosition
        \* ,_nxtUnchanged |-> nxt = nxt'
        
        \* Format the `nxt` variable as Json value.
        \* ,_nxtJson |->
        \*     LET J == INSTANCE Json
        \*     IN J!ToJson(nxt)
        
        \* Lastly, you may build expressions over arbitrary sets of states by
        \* leveraging the _TETrace operator.  For example, this is how to
        \* count the number of times a spec variable changed up to the current
        \* state in the trace.
        \* ,_nxtModCount |->
        \*     LET F[s \in DOMAIN _TETrace] ==
        \*         IF s = 1 THEN 0
        \*         ELSE IF _TETrace[s].nxt # _TETrace[s-1].nxt
        \*             THEN 1 + F[s-1] ELSE F[s-1]
        \*     IN F[_TEPosition - 1]
    ]

=============================================================================



Parsing and semantic processing can take forever if the trace below is long.
 In this case, it is advised to uncomment the module below to deserialize the
 trace from a generated binary file.

\*
\*---- MODULE FAAntichain_TETrace ----
\*EXTENDS IOUtils, FAAntichain, TLC
\*
\*trace == IODeserialize("FAAntichain_TTrace_1790422352.bin", TRUE)
\*
\*=============================================================================
\*

---- MODULE FAAntichain_TETrace ----
EXTENDS FAAntichain, TLC

trace == 
    <<
    ([A |-> [start |-> {0, 1}, fin |-> {0}, delta |-> {<<0, 0, 1>>, <<0, 1, 0>>, <<1, 0, 0>>}],sub |-> {},nsub |-> {},ac |-> {<<0, {10}>>, <<1, {10}>>},B |-> [start |-> {10}, fin |-> {10}, delta |-> {<<10, 0, 12>>, <<10, 1, 10>>, <<12, 0, 10>>}],verdict |-> "run",nxt |-> {<<0, {10}>>, <<1, {10}>>}]),
    ([A |-> [start |-> {0, 1}, fin |-> {0}, delta |-> {<<0, 0, 1>>, <<0, 1, 0>>, <<1, 0, 0>>}],sub |-> {<<{10}, {10}>>, <<{12}, {10}>>},nsub |-> {<<{10}, {10}>>, <<{10}, {12}>>},ac |-> {<<0, {10}>>, <<1, {12}>>},B |-> [start |-> {10}, fin |-> {10}, delta |-> {<<10, 0, 12>>, <<10, 1, 10>>, <<12, 0, 10>>}],verdict |-> "run",nxt |-> {<<1, {12}>>}]),
    ([A |-> [start |-> {0, 1}, fin |-> {0}, delta |-> {<<0, 0, 1>>, <<0, 1, 0>>, <<1, 0, 0>>}],sub |-> {<<{10}, {10}>>, <<{12}, {10}>>},nsub |-> {<<{10}, {10}>>, <<{10}, {12}>>},ac |-> {<<0, {10}>>, <<1, {12}>>},B |-> [start |-> {10}, fin |-> {10}, delta |-> {<<10, 0, 12>>, <<10, 1, 10>>, <<12, 0, 10>>}],verdict |-> "run",nxt |-> {}]),
    ([A |-> [start |-> {0, 1}, fin |-> {0}, delta |-> {<<0, 0, 1>>, <<0, 1, 0>>, <<1, 0, 0>>}],sub |-> {<<{10}, {10}>>, <<{12}, {10}>>},nsub |-> {<<{10}, {10}>>, <<{10}, {12}>>},ac |-> {<<0, {10}>>, <<1, {12}>>},B |-> [start |-> {10}, fin |-> {10}, delta |-> {<<10, 0, 12>>, <<10, 1, 10>>, <<12, 0, 10>>}],verdict |-> "T",nxt |-> {}])
    >>
----


=============================================================================

---- CONFIG FAAntichain_TTrace_1790422352 ----
CONSTANTS
    NB = 3
    MaxEB = 3
    MemoConverse = TRUE
    AKind = "three"

INVARIANT
    _inv

CHECK_DEADLOCK
    \* CHECK_DEADLOCK off because of PROPERTY or INVARIANT above.
    FALSE

INIT
    _init

NEXT
    _next

CONSTANT
    _TETrace <- _trace

ALIAS
    _expression
=============================================================================
\* Generated on Sat Sep 26 11:34:53 UTC 2026