CONSTANTS NS = 3  NL = 2  MaxE = 3  MaxDup = 1  PartKind = "all"  DedupPre = FALSE  NoInheritRemove = TRUE  NoMaskWhole = FALSE  SkipPrune = FALSE  PreAfterSplit = FALSE
SPECIFICATION Spec
INVARIANT ExactK
CHECK_DEADLOCK FALSE
