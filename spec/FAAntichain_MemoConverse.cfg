CONSTANTS NB = 3  MaxEB = 3  MemoConverse = TRUE  AKind = "three"
SPECIFICATION Spec
INVARIANT ExactK
CHECK_DEADLOCK FALSE
