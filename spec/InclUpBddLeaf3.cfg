CONSTANTS MaxR = 3  AlphaName = "abf"  RevSubsume = FALSE  NoFinalCheck = FALSE  UnionChildren = FALSE  NoProcCandidate = FALSE  ImpliedByWorkset = FALSE  BFamily = "leaf3"
SPECIFICATION Spec
INVARIANT Exact Sound Complete WorksetKnown
CHECK_DEADLOCK FALSE
