------------------------------ MODULE Complement ------------------------------
(***************************************************************************)
(* Layer 2 (C06): ExplicitDownwardComplementation::Compute as written      *)
(* (src/explicit_tree_comp_down.hh).  A macro-state P (a set of states of  *)
(* the operand) stands for "the tree is accepted at NO state of P".  For a *)
(* symbol s/n, W = the children tuples of the s-rules whose parent is in   *)
(* P; a tree s(t1..tn) is rejected by all of P iff every tuple w in W has  *)
(* a position i with ti rejected at w[i]: one result rule per choice       *)
(* function c : W -> 1..n, with child i = {w[c[w]] : c[w] = i}.  W empty:  *)
(* rank 0 gives the leaf rule, rank > 0 the rule over the macro-state {}   *)
(* (which accepts everything).  W non-empty and rank 0: no rule.  The root *)
(* macro-state is the set of final states; the result is then trimmed.     *)
(* With a preorder (the code is written for one; Complement() passes the   *)
(* identity) a macro-state keeps only its maximal elements: UsePre = TRUE  *)
(* explores that design with the downward simulation.                      *)
(* Checked for every automaton of the bound over the full alphabet and     *)
(* every sub-alphabet containing its symbols: ComplPost (TraceTA's C06     *)
(* contract: disjoint from L(A), together they cover every tree).          *)
(* Mutants: LeafAlways, NoRuleOnEmptyW, AllPositions, KeepMinimal.         *)
(***************************************************************************)
EXTENDS TA, TLC, Json, FiniteSetsExt
CONSTANTS MaxR, NQ, UsePre, LeafAlways, NoRuleOnEmptyW, AllPositions, KeepMinimal
Alpha == {<<"a", 0>>, <<"b", 0>>, <<"g", 1>>, <<"f", 2>>}
Tuples(Q, n) == IF n = 0 THEN {<<>>} ELSE IF n = 1 THEN {<<q>> : q \in Q} ELSE {<<p, q>> : p \in Q, q \in Q}
AllRules(Q) == UNION {{<<s[1], k, q>> : k \in Tuples(Q, s[2]), q \in Q} : s \in Alpha}
Auts(Q) == {[fin |-> F, rules |-> R] : F \in SUBSET Q, R \in UNION {kSubset(k, AllRules(Q)) : k \in 0..MaxR}}

VARIABLES A, S, ph
Pre(X) == IF UsePre THEN DownSim(X) ELSE {<<q, q>> : q \in States(X)}
\* the antichain: drop q when a strictly bigger state (or an equivalent one with a smaller number) is in the set
Norm(X, P) ==
  LET R == Pre(X)
      Bigger(q, r) == IF KeepMinimal THEN <<r, q>> \in R ELSE <<q, r>> \in R
      Smaller(q, r) == IF KeepMinimal THEN <<q, r>> \in R ELSE <<r, q>> \in R
  IN {q \in P : ~\E r \in P \ {q} : Bigger(q, r) /\ (~Smaller(q, r) \/ r < q)}
\* macro-states are numbered injectively (a set of states of 0..NQ-1 as a bit vector)
RECURSIVE Code(_)
Code(P) == IF P = {} THEN 0 ELSE LET q == CHOOSE x \in P : TRUE IN 2 ^ q + Code(P \ {q})
W(X, P, s) == {r[2] : r \in {x \in X.rules : x[1] = s[1] /\ Len(x[2]) = s[2] /\ x[3] \in P}}
\* the children macro-states of the rules for P and s, one tuple per choice function
Kids2(X, P, s) ==
  LET w == W(X, P, s) IN
  IF w = {} THEN (IF s[2] = 0 THEN {<<>>} ELSE IF NoRuleOnEmptyW THEN {} ELSE {[i \in 1..s[2] |-> {}]})
  ELSE IF s[2] = 0 THEN (IF LeafAlways THEN {<<>>} ELSE {})
  ELSE IF AllPositions THEN {[i \in 1..s[2] |-> Norm(X, {t[i] : t \in w})]}
  ELSE {[i \in 1..s[2] |-> Norm(X, {t[i] : t \in {u \in w : c[u] = i}})] : c \in [w -> 1..s[2]]}
RECURSIVE MacroLfp(_, _, _)
MacroLfp(X, Sy, M) ==
  LET M2 == M \cup UNION {UNION {{k[i] : i \in 1..Len(k)} : k \in Kids2(X, P, s)} : P \in M, s \in Sy}
  IN IF M2 = M THEN M ELSE MacroLfp(X, Sy, M2)
Raw(X, Sy) ==
  LET root == Norm(X, X.fin)
      M == MacroLfp(X, Sy, {root})
  IN [fin |-> {Code(root)},
      rules |-> UNION {{<<s[1], [i \in 1..Len(k) |-> Code(k[i])], Code(P)>> : k \in Kids2(X, P, s)} : P \in M, s \in Sy}]
Result == Trim(Raw(A, S))

Init == /\ A \in Auts(0..(NQ - 1))
        /\ S \in {T \in SUBSET Alpha : Syms(A) \subseteq T}
        /\ ph = "new"
Next == ph = "new" /\ ph' = "done" /\ UNCHANGED <<A, S>>
ComplPost ==
  ph = "new" \/
  LET C == Result IN
  /\ Empty(Prod(A, C))
  /\ Incl(Top(S), DUnion(Tag(A, 1), Tag(C, 2)))
  /\ Syms(C) \subseteq S
PostK == ComplPost \/ (PrintT(<<"KILLER", ToJson([A |-> A, S |-> S])>>) /\ FALSE)
=============================================================================
