CONSTANTS MaxR = 3  AlphaName = "bgf"  LeafAsWritten = FALSE  InheritCC = FALSE  HypAsFact = FALSE  Family = "cyc3"
INIT Init
NEXT Next
INVARIANT Exact NonInclSound
CHECK_DEADLOCK FALSE
