------------------------------ MODULE TraceLTS ------------------------------
(***************************************************************************)
(* C16: the relation computed by ExplicitLTS::computeSimulation, read for  *)
(* all q, r < k, equals the greatest simulation inside the lifted block    *)
(* preorder (or the greatest simulation preorder if no partition given).   *)
(***************************************************************************)
EXTENDS LTS, TLC, Json, IOUtils

Tr == ndJsonDeserialize(IOEnv.TRACE)
Rng(f) == {f[x] : x \in DOMAIN f}
Has(e, k) == k \in DOMAIN e
Why(b, s) == IF b THEN {} ELSE {s}

LtsFails(e) ==
  LET L == [n |-> e.n, edges |-> Rng(e.edges)]
      inDomain == e.n >= 1 /\ (Has(e, "part") => IsPartitionOf(e.part, e.n) /\ Len(e.part) = Len(e.rel) /\ IsPreorderMatrix(e.rel))
      G == IF Has(e, "part") THEN GSim(L, e.part, e.rel) ELSE GSimAll(L)
  IN IF ~inDomain THEN {}
     ELSE Why(Len(e.res.m) = e.k, "output-size")
          \cup Why(\A q \in 0..(e.k - 1) : \A r \in 0..(e.k - 1) : e.res.m[q + 1][r + 1] = (IF <<q, r>> \in G THEN 1 ELSE 0), "relation")

Fails(e) ==
  IF e.outcome # "ok" THEN {"outcome:" \o e.outcome}
  ELSE IF e.op = "lts" THEN LtsFails(e) ELSE {"unknown-op"}

VARIABLE l
Init == l \in 1..Len(Tr)
Next == UNCHANGED l
EventOK == LET f == Fails(Tr[l]) IN f = {} \/ (PrintT(<<"VFAIL", l, f>>) /\ FALSE)
=============================================================================
