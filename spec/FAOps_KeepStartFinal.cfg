CONSTANTS NQ = 2  MaxE = 3  Ops = {"unreach", "useless", "reverse", "witness"}
  StartEither = FALSE  FinalEither = FALSE  NoFinalStart = FALSE  SymbolOfLeft = FALSE  KeepStartFinal = TRUE  ReachFromFinal = FALSE
SPECIFICATION Spec
INVARIANT PostK
CHECK_DEADLOCK FALSE
