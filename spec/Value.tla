-------------------------------- MODULE Value --------------------------------
(***************************************************************************)
(* Abstract specification of explicit tree automata as VALUES held by      *)
(* handles (C11, C12).  The state is val[h] = [alive, fin, rules] for      *)
(* every handle (finite word automata additionally carry start states and *)
(* their rules are edges <<p, a, q>>); every public mutation changes the value of ITS target     *)
(* only (isolation), a copy takes the value of its source, a derived       *)
(* result is a fresh value that later lives a life of its own.             *)
(* CowStore.tla refines this module (three-level shared storage with       *)
(* unique()-tests); TraceValue.tla validates recorded executions of the    *)
(* real ExplicitTreeAut against it.                                        *)
(***************************************************************************)
EXTENDS Naturals, Sequences, FiniteSets

CONSTANT HN                         \* the set of handle names
VARIABLE val
Dead == [alive |-> FALSE, fin |-> {}, rules |-> {}, start |-> {}]
AliveS(f, r, s) == [alive |-> TRUE, fin |-> f, rules |-> r, start |-> s]
Alive(f, r) == AliveS(f, r, {})
IsLive(h) == val[h].alive

VInit == val = [h \in HN |-> Dead]
New(h)           == ~IsLive(h) /\ val' = [val EXCEPT ![h] = Alive({}, {})]
Add(h, r)        == IsLive(h) /\ val' = [val EXCEPT ![h].rules = @ \cup {r}]
SetFinal(h, q)   == IsLive(h) /\ val' = [val EXCEPT ![h].fin = @ \cup {q}]
SetStart(h, q)   == IsLive(h) /\ val' = [val EXCEPT ![h].start = @ \cup {q}]
SetFinals(h, Q)  == IsLive(h) /\ val' = [val EXCEPT ![h].fin = @ \cup Q]
EraseFinal(h)    == IsLive(h) /\ val' = [val EXCEPT ![h].fin = {}]
Clear(h)         == IsLive(h) /\ val' = [val EXCEPT ![h] = Alive({}, {})]
\* copy construction (h dead; optionally without rules / final states) and copy assignment (h live, h = g allowed)
CopyCtor(h, g, ct, cf) == ~IsLive(h) /\ IsLive(g)
                          /\ val' = [val EXCEPT ![h] = AliveS(IF cf THEN val[g].fin ELSE {}, IF ct THEN val[g].rules ELSE {}, val[g].start)]
Assign(h, g)     == IsLive(h) /\ IsLive(g) /\ val' = [val EXCEPT ![h] = val[g]]
\* move construction / assignment: the source is left moved-from and destroyed by the driver in the same step
MoveCtor(h, g)   == ~IsLive(h) /\ IsLive(g) /\ h # g /\ val' = [val EXCEPT ![h] = val[g], ![g] = Dead]
MoveAssign(h, g) == IsLive(h) /\ IsLive(g) /\ h # g /\ val' = [val EXCEPT ![h] = val[g], ![g] = Dead]
Destroy(h)       == IsLive(h) /\ val' = [val EXCEPT ![h] = Dead]
\* ReindexStates(dst, f, addFinal): the image of g under the total map f is ADDED to the existing automaton h
ReindexInto(h, g, f(_), addFinal) ==
  /\ IsLive(h) /\ IsLive(g) /\ h # g
  /\ val' = [val EXCEPT ![h].rules = @ \cup {<<r[1], [i \in 1..Len(r[2]) |-> f(r[2][i])], f(r[3])>> : r \in val[g].rules},
                        ![h].fin = IF addFinal THEN @ \cup {f(q) : q \in val[g].fin} ELSE @]
\* CopyTransitionsFrom(src, pred): the rules of g selected by the predicate are added to h
CopyTrans(h, g, Sel(_)) ==
  /\ IsLive(h) /\ IsLive(g) /\ h # g
  /\ val' = [val EXCEPT ![h].rules = @ \cup {r \in val[g].rules : Sel(r)}]
\* a library operation stores its result v in the dead handle h; nothing else changes
Derive(h, v)     == ~IsLive(h) /\ val' = [val EXCEPT ![h] = AliveS(v.fin, v.rules, v.start)]
\* a read-only query changes nothing
Query            == UNCHANGED val
=============================================================================
