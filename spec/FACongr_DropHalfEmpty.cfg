CONSTANTS NB = 3  MaxEB = 3  AKind = "four"  Order = "depth"  EmptyUncached = TRUE  MemoBySetOnly = FALSE  KeepPopped = FALSE  InitNoFinalCheck = FALSE  DropHalfEmpty = TRUE
SPECIFICATION Spec
INVARIANT ExactK
CHECK_DEADLOCK FALSE
