CONSTANTS MaxR = 3  AlphaName = "abf"  RevSubsume = FALSE  NoFinalCheck = TRUE  UnionChildren = FALSE  NoProcCandidate = FALSE  ImpliedByWorkset = FALSE  BFamily = "leaf3"
SPECIFICATION Spec
INVARIANT ExactK
CHECK_DEADLOCK FALSE
