#!/bin/bash
# usage: confirm_seed.sh <scratch worktree> <seed dir (patch.diff, demo.cc)>
# Confirms independently, in the scratch worktree: clean tree: demo passes; patched tree: compiles, demo fails, the
# repository's test binaries report the baseline (only bdd_bu_tree_aut_test fails, with its 2 known cases).
WT="$1"; SD="$2"
cd "$WT" || exit 2
git checkout -q -- . ; 
[ -f _build/build.ninja ] || cmake -G Ninja -S "$WT" -B "$WT/_build" -DCMAKE_BUILD_TYPE=RelWithDebInfo -DCMAKE_CXX_FLAGS=-Wno-error >/dev/null 2>&1
cmake --build _build -j12 >/dev/null 2>&1 || { echo "CONFIRM $SD: clean build failed"; exit 2; }
compile() { g++ -std=c++14 -O1 -DNDEBUG -DVATA_VERIF -I"$WT/include" -I"$WT/src" -I"$SD" "$SD/demo.cc" "$WT/_build/src/libvata.a" -o "$1" 2>/tmp/cf_$$_confirm_cc.log; }
runtests() { ( cd "$WT/_build/unit_tests" && for t in ondriks_mtbdd_c_test timbuk_parser_test bdd_bu_tree_aut_test bdd_td_tree_aut_test explicit_tree_aut_test; do
      r=$(timeout 900 ./$t 2>&1 | grep -o "\*\*\* [0-9]* failure\|No errors detected" | head -1); echo "$t:$r"; done ) | tr '\n' ' '; }
compile /tmp/cf_$$_confirm_demo_clean || { echo "CONFIRM $SD: demo does not compile"; cat /tmp/cf_$$_confirm_cc.log | head; exit 2; }
( cd "$SD" && timeout 300 /tmp/cf_$$_confirm_demo_clean >/tmp/cf_$$_confirm_clean.out 2>&1 ); RC_CLEAN=$?
git apply "$SD/patch.diff" || { echo "CONFIRM $SD: patch does not apply"; exit 2; }
cmake --build _build -j12 >/dev/null 2>&1 || { echo "CONFIRM $SD: patched build failed"; git checkout -q -- .; exit 2; }
compile /tmp/cf_$$_confirm_demo_mut
( cd "$SD" && timeout 300 /tmp/cf_$$_confirm_demo_mut >/tmp/cf_$$_confirm_mut.out 2>&1 ); RC_MUT=$?
TESTS=$(runtests)
git checkout -q -- .
cmake --build _build -j12 >/dev/null 2>&1
echo "CONFIRM $SD clean_demo_rc=$RC_CLEAN mutated_demo_rc=$RC_MUT tests=[$TESTS]"
