#!/bin/bash
# usage: seedtest.sh <patch.diff> <property> [tier]   - applies a seeded change to /repo, runs the check, undoes the change
# prints: SEEDTEST <patch> <prop> exit=<rc> violations=<n>
PATCH="$1"; PROP="$2"; TIER="${3:-quick}"
cd /repo || exit 2
if ! git diff --quiet; then echo "seedtest: /repo has uncommitted changes"; exit 2; fi
git apply "$PATCH" || { echo "seedtest: patch does not apply"; exit 2; }
cd /verif
LOG="/verif/out/seedtest-$(basename $(dirname $PATCH))-$PROP.log"
# the evidence file must keep describing a run on the UNCHANGED tree: save it, restore it afterwards
EV="/verif/evidence/$PROP.json"; [ -f "$EV" ] && cp "$EV" "/tmp/seedtest_ev_$$.json"
timeout 3000 bin/check "$PROP" "$TIER" > "$LOG" 2>&1
RC=$?
[ -f "/tmp/seedtest_ev_$$.json" ] && mv "/tmp/seedtest_ev_$$.json" "$EV"
git -C /repo checkout -- .
N=$(grep -c "^VIOLATION" "$LOG")
echo "SEEDTEST $PATCH $PROP exit=$RC violations=$N"
grep "^VIOLATION\|^BROKEN" -A1 "$LOG" | head -6 | cut -c1-300
