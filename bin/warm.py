#!/usr/bin/env python3
# Pre-generates (with TLC) the enumerated case files the quick tiers use, so that the first quick run after a fresh
# restore does not pay for them. Everything is cached under out/cases keyed by the hash of the generating specs.
import os
import random
import sys

sys.path.insert(0, os.path.dirname(os.path.abspath(__file__)))
import vlib  # noqa: E402
import p_ta  # noqa: E402
import p_fa  # noqa: E402
import p_lts  # noqa: E402
import p_timbuk  # noqa: E402
import p_hist  # noqa: E402
import p_mtbdd  # noqa: E402

rng = random.Random(0)
try:
    p_ta.enum_cases("pair", "abgf", 2, 2, 2, 2, sample=0.0, rng=rng)
    p_ta.enum_cases("pair", "abf", 2, 3, 2, 3, sample=0.0, rng=rng)
    p_ta.enum_cases("single", "abgf", 3, 3, sample=0.0, rng=rng)
    p_fa.enum_nfa("pair", 2, 2, 2, 2, sample=0.0, rng=rng)
    for n in (1, 2, 3):
        p_lts.enum_lts(n, 4 if n < 3 else 3, 2, sample=0.0, rng=rng)
    p_timbuk.enum_timbuk("rt", sample=0.0, rng=rng)
    p_timbuk.enum_timbuk("bad")
    p_hist.cow_histories("quick")
    p_mtbdd.store_histories("quick")
except vlib.Broken as e:
    print("BROKEN:", e)
    sys.exit(2)
print("warm: ok")
