# Seeded random case generators and presentations (state numbering, rule / symbol order).
# Nothing here decides a property: generators only choose inputs; TLC judges the recorded results.
import random

ALPHA_FULL = [["a", 0], ["b", 0], ["c", 0], ["g", 1], ["h", 1], ["f", 2], ["k", 2]]


def rand_ta(rng, nq=None, nrules=None, alpha=None, states=None, pfin=0.4):
    """random tree automaton over states 0..nq-1 (or the given state list)"""
    if nq is None:
        nq = rng.choice([1, 2, 2, 3, 3, 3, 4, 4])
    if states is None:
        states = list(range(nq))
    if alpha is None:
        if rng.random() < 0.15:
            # shared symbol NAMES: one name used with several ranks is several ranked symbols
            alpha = rng.sample([["a", 0], ["a", 1], ["a", 2], ["b", 0], ["b", 2], ["g", 1]], rng.choice([3, 4, 5]))
            if not any(s[1] == 0 for s in alpha):
                alpha[0] = ["a", 0]
        else:
            k = rng.choice([2, 3, 3, 4, 4, 5])
            alpha = rng.sample(ALPHA_FULL, k)
            if not any(s[1] == 0 for s in alpha):
                alpha[0] = ["a", 0]
        # higher ranks (rules with three / four children, often with repeated, non-adjacent children)
        r = rng.random()
        if r < 0.18 and ["t", 3] not in alpha:
            alpha = alpha + [["t", 3]]
        elif r < 0.23 and ["w", 4] not in alpha:
            alpha = alpha + [["w", 4]]
    if nrules is None:
        nrules = rng.choice([0, 1, 2, 3, 4, 5, 6, 7, 7])
    rules = []
    for _ in range(nrules):
        s = rng.choice(alpha)
        # bias toward leaf rules so that languages are often non-empty
        if rng.random() < 0.25:
            leafs = [x for x in alpha if x[1] == 0]
            if leafs:
                s = rng.choice(leafs)
        r = [s[0], [rng.choice(states) for _ in range(s[1])], rng.choice(states)]
        if r not in rules:
            rules.append(r)
    fin = [q for q in states if rng.random() < pfin]
    if not fin and rng.random() < 0.7:
        fin = [rng.choice(states)]
    return {"fin": fin, "rules": rules}, alpha


WIDE_QUICK = list(range(1, 13)) + [15, 16, 17, 31, 32, 33, 63, 64, 65, 127, 128, 129, 255, 256, 257]
WIDE_THOROUGH = list(range(1, 301)) + [511, 512, 513, 1023, 1024, 1025]


def wide_ta(rng, rank):
    """the WIDE family (size thresholds): a layered automaton whose middle layer has one or two rules of the given rank over
    leaf states (exactly one tree each) and dead states (no tree), so that every child has at most one macro-state and the
    oracle stays cheap whatever the rank.  Dead children sit first / last / in the middle / everywhere / nowhere."""
    nl = rng.choice([1, 2, 2, 3])
    nd = rng.choice([0, 1, 1, 2])
    leafs = list(range(nl))
    dead = list(range(nl, nl + nd))
    rules = [[rng.choice(["a", "b", "c"]), [], q] for q in leafs]
    for q in dead:
        how = rng.random()
        if how < 0.4:
            rules.append(["g", [q], q])
        elif how < 0.6:
            rules.append(["g", [rng.choice(dead)], q])
    nm = rng.choice([1, 1, 2])
    mids = list(range(nl + nd, nl + nd + nm))
    sym = "w%d" % rank
    for m in mids:
        for _ in range(rng.choice([1, 1, 2])):
            kids = [rng.choice(leafs) for _ in range(rank)]
            if dead:
                how = rng.random()
                if how < 0.2:
                    kids[0] = rng.choice(dead)
                elif how < 0.4:
                    kids[-1] = rng.choice(dead)
                elif how < 0.55:
                    kids[rng.randrange(rank)] = rng.choice(dead)
                elif how < 0.65:
                    kids = [rng.choice(leafs + dead) for _ in range(rank)]
                elif how < 0.7:
                    kids = [rng.choice(dead) for _ in range(rank)]
            r = [sym, kids, m]
            if r not in rules:
                rules.append(r)
    fin = []
    if rng.random() < 0.5:
        top = nl + nd + nm
        if rng.random() < 0.5 or nm == 1:
            rules.append(["g", [rng.choice(mids)], top])
        else:
            rules.append(["f", [rng.choice(mids), rng.choice(mids)], top])
        fin = [top] + [m for m in mids if rng.random() < 0.2]
    else:
        fin = [m for m in mids if rng.random() < 0.7] or ([mids[0]] if rng.random() < 0.8 else [])
    if rng.random() < 0.15 and dead:
        fin.append(rng.choice(dead))
    return {"fin": fin, "rules": rules}


def fan_ta(rng):
    """the FAN family: 4-8 states, a few child tuples each used with SEVERAL parents (and several symbols), states with identical
    rule sets, plus a little random noise - shapes where two rules / environments differ in exactly one component"""
    nq = rng.choice([4, 5, 6, 7, 8])
    st = list(range(nq))
    leafsyms = ["a", "b"][:rng.choice([1, 2])]
    rules = []
    for q in st:
        if rng.random() < 0.6:
            rules.append([rng.choice(leafsyms), [], q])
    if not rules:
        rules.append(["a", [], 0])
    big = rng.sample([["f", 2], ["k", 2], ["t", 3], ["g", 1]], rng.choice([1, 2, 2]))
    for _ in range(rng.choice([1, 2, 2, 3])):
        s = rng.choice(big)
        kids = [rng.choice(st) for _ in range(s[1])]
        for par in rng.sample(st, rng.randint(2, min(6, nq))):
            r = [s[0], list(kids), par]
            if r not in rules:
                rules.append(r)
        if rng.random() < 0.5 and s[1] >= 2:
            # the same tuple with one position changed, same parents partly
            k2 = list(kids)
            k2[rng.randrange(s[1])] = rng.choice(st)
            for par in rng.sample(st, rng.randint(1, 3)):
                r = [s[0], k2, par]
                if r not in rules:
                    rules.append(r)
    for _ in range(rng.choice([0, 1, 2])):
        s = rng.choice(big)
        r = [s[0], [rng.choice(st) for _ in range(s[1])], rng.choice(st)]
        if r not in rules:
            rules.append(r)
    fin = [q for q in st if rng.random() < 0.35] or [rng.choice(st)]
    return {"fin": fin, "rules": rules}


def rename(a, f):
    return {"fin": [f[q] for q in a.get("fin", [])],
            "rules": [[r[0], [f[k] for k in r[1]], f[r[2]]] for r in a.get("rules", [])]}


def states_of(a):
    s = set(a.get("fin", []))
    for r in a.get("rules", []):
        s.add(r[2])
        s.update(r[1])
    return s


def syms_of(*auts):
    res = []
    for a in auts:
        for r in a.get("rules", []):
            s = [r[0], len(r[1])]
            if s not in res:
                res.append(s)
    return res


NUMBERINGS = ["id", "rev", "sparse", "shift"]


def numbering(kind, n, rng=None):
    if kind == "id":
        return {q: q for q in range(n)}
    if kind == "rev":
        return {q: n - 1 - q for q in range(n)}
    if kind == "sparse":
        return {q: 7 * q + 3 for q in range(n)}
    if kind == "shift":
        return {q: q + 100 for q in range(n)}
    if kind == "huge":
        # about half of the states get numbers beyond 32 bits (the driver maps 10^9 + q to 2^33 + q), the others keep theirs
        f = {q: (10 ** 9 + q if rng.random() < 0.5 else q) for q in range(n)}
        if n and all(v < 10 ** 9 for v in f.values()):
            f[rng.randrange(n)] += 10 ** 9
        return f
    if kind == "top":
        # the largest legal state numbers: the driver maps 1 999 999 999 - k to SIZE_MAX - k; one state (often the only one) gets
        # SIZE_MAX itself, some others sit just below, the rest keep small numbers
        f = {q: q for q in range(n)}
        if n:
            order = list(range(n))
            rng.shuffle(order)
            f[order[0]] = 1999999999
            for j, q in enumerate(order[1:], 1):
                if rng.random() < 0.3:
                    f[q] = 1999999999 - j
        return f
    if kind == "pow2":
        # state numbers at and around powers of two (thresholds of dense tables, bit vectors, packed fields)
        used = set()
        f = {}
        for q in range(n):
            while True:
                v = (1 << rng.choice([3, 4, 5, 6, 7, 8, 10, 12, 13, 14, 15, 16, 17, 20, 24, 29])) + rng.choice([-1, 0, 0, 1])
                if rng.random() < 0.3:
                    v = q
                if v not in used:
                    break
            used.add(v)
            f[q] = v
        return f
    if kind == "perm":
        p = list(range(n))
        rng.shuffle(p)
        return {q: p[q] for q in range(n)}
    raise ValueError(kind)


def present(a, rng, num="id", n=None, shuffle=True):
    """apply a numbering and a rule-insertion order to the abstract automaton a (states 0..n-1)"""
    if n is None:
        n = (max(states_of(a)) + 1) if states_of(a) else 0
    f = numbering(num, n, rng)
    b = rename(a, f)
    if shuffle:
        rng.shuffle(b["rules"])
        rng.shuffle(b["fin"])
    return b


def present_pair(c, rng, disjoint=False):
    """presentation of a pair case {A,B}: numbering of both operands (B possibly overlapping A), orders"""
    na = rng.choice(["id", "id", "rev", "sparse"])
    nb = rng.choice(["id", "rev", "sparse", "shift", "shift"])
    if disjoint:
        nb = "shift"
    A = present(c["A"], rng, na)
    B = present(c["B"], rng, nb)
    syms = syms_of(A, B)
    rng.shuffle(syms)
    d = dict(c)
    d.update({"A": A, "B": B, "syms": syms, "pres": [na, nb]})
    if not disjoint and c.get("op") in ("incl", "union", "isect") and rng.random() < 0.12:
        # B is a copy of A that is then edited through the API (final states changed, a few rules added): the operands
        # share whatever copy-on-write leaves shared, and the pair is "nearly equal"
        B2 = {"fin": list(A["fin"]), "rules": [list(r) for r in A["rules"]]}
        st = sorted(states_of(A)) or [0]
        how = rng.random()
        if how < 0.3:
            B2["fin"] = sorted(set(B2["fin"]) | {rng.choice(st)})
        elif how < 0.6 and B2["fin"]:
            B2["fin"] = [q for q in B2["fin"] if rng.random() < 0.5]
        elif how < 0.75:
            B2["fin"] = [q for q in st if rng.random() < 0.4]
        sy = syms_of(A) or [["a", 0]]
        for _ in range(rng.choice([0, 0, 0, 1, 1, 2])):
            x = rng.choice(sy)
            r = [x[0], [rng.choice(st) for _ in range(x[1])], rng.choice(st)]
            if r not in B2["rules"]:
                B2["rules"].append(r)
        d["B"] = B2
        d["bmode"] = "extend"
        if c.get("op") == "incl" and rng.random() < 0.5:
            d["swap"] = True       # the edited copy is the smaller operand
        d["syms"] = syms_of(A)
        d.pop("split", None)
    elif not disjoint and c.get("op") in ("incl", "union", "isect", "bddincl") and rng.random() < 0.06:
        # the same object as both operands, or a copy sharing its storage (value: B = A)
        d["B"] = {"fin": list(A["fin"]), "rules": [list(r) for r in A["rules"]]}
        d["bmode"] = rng.choice(["alias", "copy"])
        d["syms"] = syms_of(A)
    if rng.random() < 0.06:
        d["build"] = "load"        # operands assembled through LoadFromAutDesc instead of AddTransition / SetStateFinal
    if c.get("op") in ("incl", "union", "isect", "uniondisj") and rng.random() < 0.1:
        d["amode"] = "copy"        # a copy of A (sharing its storage) is alive during the call and read back afterwards
    if c.get("op") == "incl" and rng.random() < 0.3:
        d["relcopy"] = True        # the simulation is handed over as a copy whose source variable is re-used (see harness runIncl)
    if c.get("op") == "incl" and len(A["rules"]) >= 2 and rng.random() < 0.15:
        d["split"] = rng.randint(1, len(A["rules"]) - 1)       # ask-twice mode (see harness BuildMaybeSplit)
    return d


# ------------------------------------------------------------------ NFAs
def rand_nfa(rng, nq=None, nedges=None, sigma=None):
    if nq is None:
        nq = rng.choice([1, 2, 2, 3, 3, 3, 4, 4])
    if sigma is None:
        sigma = ["a", "b", "c"][:rng.choice([1, 2, 2, 3])]
    if nedges is None:
        nedges = rng.choice([0, 1, 2, 3, 4, 5, 6, 7])
    st = list(range(nq))
    delta = []
    for _ in range(nedges):
        e = [rng.choice(st), rng.choice(sigma), rng.choice(st)]
        if e not in delta:
            delta.append(e)
    start = [q for q in st if rng.random() < 0.4] or ([rng.choice(st)] if rng.random() < 0.8 else [])
    fin = [q for q in st if rng.random() < 0.4] or ([rng.choice(st)] if rng.random() < 0.8 else [])
    return {"start": start, "fin": fin, "delta": delta}, sigma


HUB_QUICK = list(range(1, 14)) + [15, 16, 17, 31, 32, 33, 64, 65]
HUB_THOROUGH = list(range(1, 70)) + [127, 128, 129, 255, 256, 257]


def hub_nfa_pair(rng, k):
    """the HUB family (size thresholds on the number of symbols leaving one state): A has a state with k distinct outgoing symbols,
    B a state with far fewer (or the other way round), some in common; short words, small automata"""
    sig = ["s%d" % i for i in range(k)]
    def hub(nsyms, tag):
        use = rng.sample(sig, nsyms)
        delta = [[0, a, rng.choice([1, 2])] for a in use]
        delta += [[rng.choice([1, 2]), rng.choice(sig), rng.choice([0, 1, 2])] for _ in range(rng.choice([0, 1, 2]))]
        d2 = []
        for e in delta:
            if e not in d2:
                d2.append(e)
        return {"start": [0], "fin": [rng.choice([1, 2])] + ([0] if rng.random() < 0.2 else []), "delta": d2}
    small = rng.choice([1, 2, 3, max(1, k // 3), max(1, k // 2 - 1)])
    A, B = hub(k, "a"), hub(min(small, k), "b")
    if rng.random() < 0.3:
        A, B = B, A
    return A, B, sig


def nfa_states(a):
    s = set(a["start"]) | set(a["fin"])
    for e in a["delta"]:
        s.add(e[0])
        s.add(e[2])
    return s


def nfa_rename(a, f):
    return {"start": [f[q] for q in a["start"]], "fin": [f[q] for q in a["fin"]],
            "delta": [[f[e[0]], e[1], f[e[2]]] for e in a["delta"]]}


def nfa_present(a, rng, num):
    st = nfa_states(a)
    n = (max(st) + 1) if st else 0
    b = nfa_rename(a, numbering(num, n, rng))
    rng.shuffle(b["delta"])
    return b


def nfa_nonempty(a):
    reach = set(a["start"])
    ch = True
    while ch:
        ch = False
        for e in a["delta"]:
            if e[0] in reach and e[2] not in reach:
                reach.add(e[2])
                ch = True
    return bool(reach & set(a["fin"]))
