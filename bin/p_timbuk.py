# C13: Timbuk round trips and malformed input (level: exploration - "all byte strings" is only sampled).
import json
import os
import random

import vlib
from p_ta import run_events, do_replay

TB_DEPS = ["Timbuk.tla", "GenTimbuk.tla"]


def enum_timbuk(mode, sample=None, rng=None, shards=16):
    if mode == "bad":
        envs = [{"GEN_MODE": "bad", "GEN_SHARD": "0", "GEN_NSHARDS": "1"}]
    else:
        envs = [{"GEN_MODE": "rt", "GEN_SHARD": str(s), "GEN_NSHARDS": str(shards)} for s in range(shards)]
    out = []
    for f in vlib.tlc_generate("GenTimbuk.tla", envs, TB_DEPS, "timbuk-" + mode):
        with open(f) as fh:
            for line in fh:
                if sample is not None and rng.random() >= sample:
                    continue
                c = json.loads(line)
                c["src"] = "GenTimbuk-" + mode
                out.append(c)
    return out


GARBAGE = ["->", "(", ")", ",", ":", "\n", " ", "\t", "\x00", "\xff", "Transitions\n", "Ops", "a(", "))", "->->", "\r\n", "q:99999999999999999999", "é"]


def byte_mutants(rng, texts, n):
    out = []
    for i in range(n):
        t = rng.choice(texts)
        k = rng.randint(1, 4)
        s = t
        for _ in range(k):
            how = rng.random()
            p = rng.randint(0, len(s))
            if how < 0.3:
                s = s[:p] + rng.choice(GARBAGE) + s[p:]
            elif how < 0.55:
                q = min(len(s), p + rng.randint(1, 6))
                s = s[:p] + s[q:]
            elif how < 0.75 and s:
                p = min(p, len(s) - 1)
                s = s[:p] + chr(rng.choice([0, 9, 10, 13, 32, 40, 41, 44, 45, 58, 62, 127, 200, 255])) + s[p + 1:]
            elif how < 0.9:
                q = min(len(s), p + rng.randint(1, 20))
                s = s[:q] + s[p:q] + s[q:]
            else:
                s = s[:p]
        out.append({"id": ["bm", i], "op": "timbuk", "mode": "bad", "text": s, "src": "byte-mutant"})
    return out


WS = ["\t", "\v", "\f", "\r", "\v ", " \f", "\x0b\x0c", "\r\n", "\t\t"]


def ws_mutants(rng, texts, n):
    """valid texts in which one to three separating blanks (or line ends) are replaced / followed by other white-space bytes
    (TAB, VT, FF, CR): whatever the reader makes of them, it must return or throw"""
    out = []
    for i in range(n):
        s = rng.choice(texts)
        for _ in range(rng.randint(1, 3)):
            pos = [k for k, ch in enumerate(s) if ch in " \n"]
            if not pos:
                break
            # the first separator of a line is where a keyword ends: chosen more often
            firsts = [k for k in pos if s[k] == " " and " " not in s[s.rfind("\n", 0, k) + 1:k]]
            p = rng.choice(firsts if firsts and rng.random() < 0.5 else pos)
            w = rng.choice(WS)
            how = rng.random()
            if how < 0.5:
                s = s[:p] + w + s[p + 1:]
            elif how < 0.8:
                s = s[:p] + w + s[p:]
            else:
                s = s[:p + 1] + w + s[p + 1:]
        out.append({"id": ["ws", i], "op": "timbuk", "mode": "bad", "text": s, "src": "ws-mutant"})
    return out


def size_family(rng, tier):
    """valid descriptions and raw texts whose SIZE is unusual: very wide rules, very long names, very many states / rules, very long lines
    (a parser or loader must neither crash nor hang on them, and valid ones must round-trip)"""
    out = []

    def rt(i, name, syms, states, fin, trans):
        lines = ["Ops " + " ".join("%s:%d" % (s[0], s[1]) for s in syms), "Automaton " + name, "States " + " ".join(states),
                 "Final States " + " ".join(fin), "Transitions"]
        for t in trans:
            lines.append((t[0] if not t[1] else "%s(%s)" % (t[0], ",".join(t[1]))) + " -> " + t[2])
        out.append({"id": ["size", i], "op": "timbuk", "mode": "rt", "variant": 0, "src": "size-family", "tmo": 120000,
                    "desc": {"name": name, "syms": [[s[0], s[1]] for s in syms], "states": states, "fin": fin, "trans": trans},
                    "text": "\n".join(lines) + "\n"})
    widths = [3000, 12000, 30000] if tier == "thorough" else [3000, 12000]
    for i, w in enumerate(widths):
        rt(i, "A", [["a", 0], ["f", w]], ["q0", "q1"], ["q1"], [["a", [], "q0"], ["f", ["q0"] * w, "q1"]])
    for i, n in enumerate([20000, 80000] + ([400000] if tier == "thorough" else [])):
        big = "q" * n
        rt(10 + i, "A", [["a", 0], ["g", 1]], [big, "p"], [big], [["a", [], "p"], ["g", ["p"], big], ["g", [big], big]])
        rt(20 + i, "A", [["s" * n, 0], ["g", 1]], ["p", "q"], ["q"], [["s" * n, [], "p"], ["g", ["p"], "q"]])
    m = 4000
    states = ["s%d" % k for k in range(m)]
    rt(30, "A", [["a", 0], ["g", 1]], states, [states[-1]], [["a", [], states[0]]] + [["g", [states[k]], states[k + 1]] for k in range(m - 1)])
    for i, n in enumerate([100000, 600000]):
        out.append({"id": ["size", 40 + i], "op": "timbuk", "mode": "bad", "src": "size-family", "tmo": 120000, "text": "x" * n})
        out.append({"id": ["size", 50 + i], "op": "timbuk", "mode": "bad", "src": "size-family", "tmo": 120000,
                    "text": "Ops a:0\nAutomaton A\nStates q\nFinal States q\nTransitions\n" + "f(" + "q," * n + "q -> q\n"})
        out.append({"id": ["size", 60 + i], "op": "timbuk", "mode": "bad", "src": "size-family", "tmo": 120000,
                    "text": "Ops " + "a:0 " * (n // 4) + "\nAutomaton A\nStates " + "q " * (n // 2) + "\nFinal States q\nTransitions\na -> q\n"})
    return out


def check_C13(tier, seed, res, replay=None):
    res.level = "exploration"
    rd = vlib.rundir("C13", tier)
    res.rule = ("round trip: TLC-enumerated descriptions (1-2 states from a pool of awkward legal names incl. keywords, 3 symbol-name families, <=2 rules, every final set) "
                "x 6 surface variants (canonical; nullary rules with (); blank lines/extra blanks/q:0 suffixes; empty Ops/States sections; rank-less Ops; TAB separators + blanks inside parentheses), parsed and loaded into all 4 "
                "encodings with dump-load-dump; malformed: every token-level mutant (drop/dup/swap/insert reserved punctuation), every truncation point and line "
                "drop/dup of 3 base texts (TLC-enumerated) plus seeded byte-level and white-space (TAB/VT/FF/CR) mutants; non-trivial = description has a rule of rank >= 1 (rt) or text differs "
                "from every valid serialisation (bad); distinct by content hash")
    res.assumptions = ["'any input text whatsoever' is sampled, not enumerated; memory corruption that does not crash is not observable by this family (no sanitizer)"]
    if replay:
        return do_replay(res, rd, replay, "TraceTimbuk.tla")
    rng = random.Random(seed)
    cases = enum_timbuk("rt", sample=(0.5 if tier == "thorough" else 0.06), rng=rng)
    for c in cases:
        if rng.random() < 0.3:
            c["forked"] = True      # additionally load into an explicit automaton whose alphabet is a COPY of one holding other symbols
    bad = enum_timbuk("bad")
    cases += bad
    valid_texts = [c["text"] for c in cases if c["mode"] == "rt"][:400] or ["Ops a:0\nAutomaton A\nStates q\nFinal States q\nTransitions\na -> q\n"]
    cases += byte_mutants(rng, valid_texts, 60000 if tier == "thorough" else 8000)
    cases += ws_mutants(rng, valid_texts, 20000 if tier == "thorough" else 3000)
    cases += size_family(rng, tier)

    def nt(c):
        if c["mode"] == "rt":
            return any(len(t[1]) >= 1 for t in c["desc"]["trans"])
        return True
    for c in cases:
        if rng.random() < 0.4:
            c["preuse"] = True      # one parser / serialiser object per worker process, used again and again (also after malformed texts)
    rng.shuffle(cases)              # valid and malformed texts interleave in every worker
    res.count_cases(cases, nt)
    res.add_samples([c for c in cases if c["mode"] == "rt" and nt(c)][:2] + [c for c in cases if c["mode"] == "bad"][:2])
    run_events(res, rd, "c13", cases, "TraceTimbuk.tla", timeout_ms=5000, heap="6g")
