# Checks for the pure operations on explicit tree automata: C01-C06, C14, C15.
import json
import os
import random

import gen
import vlib
from vlib import log

TA_DEPS = ["TA.tla", "GenTA.tla"]


def gen_envs(mode, alpha, nq, maxr, nqb=None, maxrb=None, shards=16):
    envs = []
    for s in range(shards):
        e = {"GEN_MODE": mode, "GEN_ALPHA": alpha, "GEN_NQ": str(nq), "GEN_MAXR": str(maxr),
             "GEN_SHARD": str(s), "GEN_NSHARDS": str(shards)}
        if nqb is not None:
            e["GEN_NQB"] = str(nqb)
            e["GEN_MAXRB"] = str(maxrb)
        envs.append(e)
    return envs


def enum_cases(mode, alpha, nq, maxr, nqb=None, maxrb=None, sample=None, rng=None):
    """all automata / pairs of the bound as enumerated by TLC (GenTA.tla), optionally a seeded subsample"""
    tag = "%s-%s-%d-%d-%s-%s" % (mode, alpha, nq, maxr, nqb, maxrb)
    files = vlib.tlc_generate("GenTA.tla", gen_envs(mode, alpha, nq, maxr, nqb, maxrb), TA_DEPS, tag)
    out = []
    for f in files:
        with open(f) as fh:
            for line in fh:
                if sample is not None and rng.random() >= sample:
                    continue
                c = json.loads(line)
                c["src"] = tag
                out.append(c)
    return out


def load_killers(name):
    p = os.path.join(vlib.SPEC, "killers", name)
    return vlib.read_ndjson(p) if os.path.exists(p) else []


def run_events(res, rd, name, cases, module="TraceTA.tla", timeout_ms=5000, heap="3g"):
    """drive the cases on the real library, let TLC judge every recorded event"""
    if not cases:
        return
    cf = os.path.join(rd, name + ".cases.ndjson")
    vlib.write_ndjson(cf, cases)
    shards = vlib.drive(cf, os.path.join(rd, name + ".ev"), timeout_ms=timeout_ms)
    v = vlib.tlc_validate(module, shards, heap=heap)
    res.add_validation(v)
    res.report_fails(v["fails"], os.path.join(vlib.OUT, "viol"))
    res.checker_cmds.append("vdrive run %s; TRACE=<shard> tlc -continue -config %s %s" % (
        os.path.basename(cf), module.replace(".tla", ".cfg"), module))
    return v


def do_replay(res, rd, replay, module="TraceTA.tla"):
    cases = vlib.read_ndjson(replay)
    res.count_cases(cases, lambda c: True)
    res.add_samples(cases)
    run_events(res, rd, "replay", cases, module)
    res.rule = "replay of " + replay


# ---------------------------------------------------------------------------------------- C01
def nontrivial_pair(c):
    return vlib.ta_nonempty(c["A"]) and vlib.ta_nonempty(c["B"]) and any(len(r[1]) > 0 for r in c["A"]["rules"])


def check_C01(tier, seed, res, replay=None):
    rd = vlib.rundir("C01", tier)
    res.rule = ("all pairs of tree automata of the TLC-enumerated bounds (B1: <=2 states, <=2 rules over a/0,b/0,g/1,f/2; "
                "B1b sample: <=2 states, <=3 rules over a/0,b/0,f/2), killer inputs, and seeded random pairs (<=4 states, <=7 rules), "
                "each under a pseudo-random presentation (state numbering incl. overlapping operands, rule and symbol order); "
                "all 8 selections per case; non-trivial = both languages non-empty and A has a non-leaf rule; distinct by content hash")
    res.assumptions = ["TLC evaluates TA!Incl (bottom-up macro-state fixpoint) correctly; self-checked against bounded tree enumeration in TAcheck",
                       "simulation-based selections are prepared as cli/operations.hh does (sanitise, disjoint union, SetNumStates)"]
    if replay:
        return do_replay(res, rd, replay)
    rng = random.Random(seed)
    cases = []
    frac = None if tier == "thorough" else None
    for c in enum_cases("pair", "abgf", 2, 2, 2, 2, sample=frac, rng=rng):
        cases.append(gen.present_pair(dict(c, op="incl"), rng))
    b1b = 1.0 if tier == "thorough" else 0.05
    for c in enum_cases("pair", "abf", 2, 3, 2, 3, sample=b1b, rng=rng):
        cases.append(gen.present_pair(dict(c, op="incl"), rng))
    for k in load_killers("incl.ndjson"):
        for _ in range(4):
            cases.append(gen.present_pair(dict(k, op="incl"), rng))
    nrand = 20000 if tier == "thorough" else 4000
    for i in range(nrand):
        A, alpha = gen.rand_ta(rng)
        B, _ = gen.rand_ta(rng, alpha=alpha)
        cases.append(gen.present_pair({"id": ["r", i], "op": "incl", "A": A, "B": B, "src": "random"}, rng))
    res.count_cases(cases, nontrivial_pair)
    res.add_samples([c for c in cases if nontrivial_pair(c)][:2] + cases[-1:])
    run_events(res, rd, "incl", cases)
    agreement_arm(res, rd, tier, seed)
    # the same contract observed through the command-line tool (cli/operations.hh prepares operands and simulations)
    import cli_arm
    nt_cases = [c for c in cases if nontrivial_pair(c)]
    rng.shuffle(nt_cases)
    # a quarter of the CLI sample is drawn from ALL cases: degenerate operands (no final state, useless final states, no rules)
    # go through the tool's own preparation code as well
    rest = [c for c in cases if not nontrivial_pair(c) and c.get("op") == "incl"]
    rng.shuffle(rest)
    ncli = 6000 if tier == "thorough" else 1200
    # ... and a small DEGENERATE family, every combination of operand shapes: as it is / no final state / only useless final
    # states (a final state without rules, or one that needs an unproductive child) / no rules at all
    def degrade(a, how):
        a = {"fin": list(a["fin"]), "rules": [list(r) for r in a["rules"]]}
        top = max(list(vlib.ta_states(a)) + [0]) + 1
        if how == "nofin":
            a["fin"] = []
        elif how == "uselessfin":
            a["fin"] = [top]
            if rng.random() < 0.5 and a["rules"]:
                a["rules"].append([a["rules"][0][0] + "z", [top + 1], top])
        elif how == "norules":
            a["rules"] = []
        return a
    degen = []
    base = nt_cases[:40 if tier == "thorough" else 8]
    for bi, c in enumerate(base):
        for ha in ("asis", "nofin", "uselessfin", "norules"):
            for hb in ("asis", "nofin", "uselessfin", "norules"):
                A2, B2 = degrade(c["A"], ha), degrade(c["B"], hb)
                degen.append({"id": ["degen", bi, ha, hb], "op": "incl", "A": A2, "B": B2, "syms": gen.syms_of(A2, B2), "src": "degenerate"})
    run_events(res, rd, "degen", degen)
    cli_arm.judge(res, rd, "incl", cli_arm.incl_events(nt_cases[:ncli] + rest[:ncli // 3] + degen, rd), "TraceTA.tla")
    binding_inclup(res, rd, tier, [c for c in cases if nontrivial_pair(c)], rng)
    binding_incldown(res, rd, tier, [c for c in cases if nontrivial_pair(c)], rng)
    # Layer 0: the oracle itself, cross-checked against the naive tree semantics (never depends on the code)
    shards = list(range(64)) if tier == "thorough" else [(seed * 7 + i * 4) % 64 for i in range(16)]
    m = vlib.tlc_sharded_check("TAcheck.tla", "TAcheck.cfg", 64, sorted(set(shards)))
    res.add_model(m)
    if not m["ok"]:
        raise vlib.Broken("the Layer-0 oracle TA.tla fails its self-check (%s)" % m["log"])
    # Layer 2: the upward antichain algorithm for every pair of the bound and EVERY work-list order
    model_with_mutants(res, "InclUp.tla", "InclUp3.cfg" if tier == "thorough" else "InclUp.cfg",
                       ["RevSubsume", "NoFinalCheck", "UnionChildren", "FirstPosOnly"] if tier == "thorough" else [], "InclUp")
    # ... and the downward algorithm (workset of hypotheses, nonIncl antichain, per-frame childrenCache), two iteration orders
    model_with_mutants(res, "InclDown.tla", "InclDown3.cfg" if tier == "thorough" else "InclDown.cfg",
                       ["LeafAsWritten", "HypAsFact"] if tier == "thorough" else [], "InclDown")
    if tier == "thorough":
        for cfg in ("InclUpLeaf3.cfg",):
            model_with_mutants(res, "InclUp.tla", cfg, [], "InclUp")
        model_with_mutants(res, "InclDown.tla", "InclDownCyc3.cfg", [], "InclDown")


def binding_inclup(res, rd, tier, pool, rng):
    """step-level binding of the Layer-2 model InclUp: executions of the real upward algorithm recorded through the guarded hook
    (Start / Pick / Rule / Verdict) must be behaviours of the model (TraceInclUp). By DESIGN 2.7 a divergence is reported in the
    evidence (model_binding) and as a MODEL-BINDING-DIVERGED line, never as a VIOLATION: a correct refactoring may change it."""
    import p_hist
    rng.shuffle(pool)
    sample = [dict(c, op="incluptrace") for c in pool[:12000 if tier == "thorough" else 2500]]
    for c in sample:
        c.pop("split", None)
    cf = os.path.join(rd, "bind.cases.ndjson")
    vlib.write_ndjson(cf, sample)
    items = []
    for sh in vlib.drive(cf, os.path.join(rd, "bind.ev")):
        for ev in vlib.read_ndjson(sh):
            if ev.get("outcome") == "ok" and ev["res"]["events"]:
                items.append(({"id": ev.get("id"), "kind": "inclup", "A": ev["A"], "B": ev["B"]}, ev["res"]["events"]))
    if not items:
        res.extra["model_binding"] = {"InclUp": "no step events recorded (hook absent?)"}
        return
    v = p_hist.tlc_validate_seq("TraceInclUp.tla", "TraceInclUp.cfg", items, rd, "bind", emit_reset=False)
    res.add_validation(v)
    res.extra["model_binding"] = {"InclUp": {"executions": len(items), "step_events_accepted": v["events"], "diverged": len(v["fails"]),
                                             "first_divergence": ({"case": v["fails"][0][0], "at_event": v["fails"][0][2]} if v["fails"] else None)}}
    if v["fails"]:
        print("MODEL-BINDING-DIVERGED model=InclUp executions=%d diverged>=%d (evidence only, not a violation)" % (len(items), len(v["fails"])))


def bind_model(res, rd, name, model, sample, module, cfg, keep=("A", "B", "mode"), prep=None, timeout_ms=3000):
    """generic step-level binding: drive `sample` (ops that return res.events starting with a Start event), validate every
    execution sequentially against the trace spec; evidence only (model_binding + MODEL-BINDING-DIVERGED line)"""
    import p_hist
    cf = os.path.join(rd, name + ".cases.ndjson")
    vlib.write_ndjson(cf, sample)
    items = []
    for sh in vlib.drive(cf, os.path.join(rd, name + ".ev"), timeout_ms=timeout_ms):
        for ev in vlib.read_ndjson(sh):
            if ev.get("outcome") == "ok" and ev["res"]["events"] and ev["res"]["events"][0].get("e") == "Start":
                evs = ev["res"]["events"]
                if prep:
                    evs = prep(evs)
                case = {"id": ev.get("id"), "kind": name}
                for k in keep:
                    if k in ev:
                        case[k] = ev[k]
                items.append((case, evs))
    mb = res.extra.setdefault("model_binding", {})
    if not items:
        mb[model] = "no step events recorded (hook absent?)"
        return
    v = p_hist.tlc_validate_seq(module, cfg, items, rd, name, emit_reset=False)
    res.add_validation(v)
    mb[model] = {"executions": len(items), "step_events_accepted": v["events"], "diverged": len(v["fails"]),
                 "first_divergence": ({"case": v["fails"][0][0], "at_event": v["fails"][0][2]} if v["fails"] else None)}
    if v["fails"]:
        print("MODEL-BINDING-DIVERGED model=%s executions=%d diverged>=%d (evidence only, not a violation)" % (model, len(items), len(v["fails"])))


def bind_events(res, rd, name, model, sample, module, timeout_ms=3000):
    """binding of a functional Layer-2 model: `sample` is driven, every recorded event is judged independently by `module`
    (the logged internal artefact must be the model's, and must mean what the model says); evidence only (model_binding +
    MODEL-BINDING-DIVERGED line) - the API-level contract is judged elsewhere in the same check"""
    cf = os.path.join(rd, name + ".cases.ndjson")
    vlib.write_ndjson(cf, sample)
    shards = vlib.drive(cf, os.path.join(rd, name + ".ev"), timeout_ms=timeout_ms)
    v = vlib.tlc_validate(module, shards)
    res.add_validation(v)
    mb = res.extra.setdefault("model_binding", {})
    mb[model] = {"executions": v["events"], "diverged": len(v["fails"]),
                 "first_divergence": ({"reasons": v["fails"][0][2], "case": {k: v["fails"][0][3].get(k) for k in ("id", "A", "B", "dir", "n")}}
                                      if v["fails"] else None)}
    if v["fails"]:
        print("MODEL-BINDING-DIVERGED model=%s executions=%d diverged=%d reasons=%s (evidence only, not a violation)" % (
            model, v["events"], len(v["fails"]), ",".join(sorted(set(r for f in v["fails"] for r in f[2])))))
    return v


def binding_incldown(res, rd, tier, pool, rng):
    """semantic binding of the downward algorithms' caches (InclDown's invariants on real runs): every sub-call answer recorded
    through the guarded hook is judged by TLC.  A wrong sub-answer is evidence only (MODEL-BINDING-DIVERGED) - but it is
    AMPLIFIED: the sub-problem (A rooted at p, B rooted at P) is run as an ordinary inclusion case through all 8 selections,
    where a wrong verdict is an API-level violation."""
    rng.shuffle(pool)
    sample = []
    pool = [c for c in pool if any(r[1] for r in c["A"]["rules"]) and any(r[1] for r in c["B"]["rules"])]
    for c in pool[:60000 if tier == "thorough" else 12000]:
        for k in rng.sample(range(2, 8), 2):
            sample.append({"id": c["id"], "op": "incldowntrace", "selidx": k, "A": c["A"], "B": c["B"], "syms": c.get("syms", [])})
    cf = os.path.join(rd, "binddn.cases.ndjson")
    vlib.write_ndjson(cf, sample)
    nexec = nans = 0
    files = []
    for k, sh in enumerate(vlib.drive(cf, os.path.join(rd, "binddn.ev"))):
        evs = [ev for ev in vlib.read_ndjson(sh) if ev.get("outcome") == "ok" and "SA" in ev.get("res", {}) and ev["res"]["answers"]]
        nexec += len(evs)
        nans += sum(len(ev["res"]["answers"]) for ev in evs)
        f = os.path.join(rd, "binddn.judge.%d.ndjson" % k)
        vlib.write_ndjson(f, evs)
        files.append(f)
    mb = res.extra.setdefault("model_binding", {})
    if not nexec:
        mb["InclDown-answers"] = "no sub-call answers recorded (hook absent?)"
        return
    v = vlib.tlc_validate("TraceTA.tla", files)
    res.add_validation(v)
    mb["InclDown-answers"] = {"executions": nexec, "sub_answers_judged": nans, "executions_with_unsound_answer": len(v["fails"]),
                              "first": ({"sel": v["fails"][0][3]["res"]["sel"], "A": v["fails"][0][3]["A"], "B": v["fails"][0][3]["B"]} if v["fails"] else None)}
    if not v["fails"]:
        return
    print("MODEL-BINDING-DIVERGED model=InclDown-answers executions=%d with-unsound-sub-answer=%d (evidence only; sub-problems re-run as inclusion cases)"
          % (nexec, len(v["fails"])))
    # amplification: every sub-problem of the diverging executions as an ordinary inclusion case (all 8 selections, judged by C01's contract)
    amp = []
    for (_, _, _, ev) in v["fails"][:40]:
        sa, sb = ev["res"]["SA"], ev["res"]["SB"]
        name = lambda r: "s%d_%d" % (r[0], len(r[1]))
        for n, a in enumerate(ev["res"]["answers"][:60]):
            A = {"fin": [a[0]], "rules": [[name(r), r[1], r[2]] for r in sa["rules"]]}
            B = {"fin": list(a[1]), "rules": [[name(r), r[1], r[2]] for r in sb["rules"]]}
            amp.append({"id": ["amp", ev.get("id"), n], "op": "incl", "A": A, "B": B, "syms": gen.syms_of(A, B), "src": "sub-problem of a downward run with an unsound sub-answer"})
    run_events(res, rd, "amp", amp)


def agreement_arm(res, rd, tier, seed):
    """oracle-free: millions of seeded random pairs generated inside the driver, all 8 selections per pair; only pairs on
    which the selections disagree (a certain violation of C01) come back, as full 'incl' events that TLC then judges"""
    nb, per = (1600, 30000) if tier == "thorough" else (96, 20000)
    batches = [{"id": ["agree", i], "op": "inclagree", "seed": seed * 100003 + i, "count": per, "shape": ["dense", "dense", "mid", "wide"][i % 4],
                "tmo": 900000} for i in range(nb)]
    cf = os.path.join(rd, "agree.cases.ndjson")
    vlib.write_ndjson(cf, batches)
    shards = vlib.drive(cf, os.path.join(rd, "agree.ev"), timeout_ms=900000)
    events = []
    pairs = 0
    noninc = 0
    for sh in shards:
        for ev in vlib.read_ndjson(sh):
            if ev.get("outcome") != "ok":
                # a crash / hang inside a batch: the batch itself is the (deterministic) replay
                events.append(dict(ev, op="incl", A={"fin": [], "rules": []}, B={"fin": [], "rules": []}))
                continue
            pairs += ev["res"]["count"]
            noninc += ev["res"]["nonincluded"]
            events += ev["res"]["disagree"]
    res.extra["agreement_arm_pairs"] = pairs
    res.extra["agreement_arm_nonincluded_pairs"] = noninc
    res.extra["agreement_arm_disagreements"] = len(events)
    res.checker_cmds.append("vdrive inclagree x%d batches (8 selections per random pair, disagreements only -> TraceTA)" % nb)
    if events:
        ef = os.path.join(rd, "agree.disagree.0.ndjson")
        vlib.write_ndjson(ef, events)
        v = vlib.tlc_validate("TraceTA.tla", [ef])
        res.add_validation(v)
        res.report_fails(v["fails"], os.path.join(vlib.OUT, "viol"))


def laws_arm(res, rd, tier, seed, which, nb_quick=32, per_quick=4000, nb_thorough=480, per_thorough=10000):
    """oracle-free volume beyond the exhaustive bound for single-automaton operations (driver op lawsagree): consequences of the
    contract are checked with the library's own inclusion on driver-generated automata with 3-9 states; suspicious inputs come
    back as ordinary events and TLC judges them with the real contract"""
    nb, per = (nb_thorough, per_thorough) if tier == "thorough" else (nb_quick, per_quick)
    batches = [{"id": ["lawsagree", which, i], "op": "lawsagree", "which": which, "seed": seed * 9973 + i, "count": per, "tmo": 900000} for i in range(nb)]
    cf = os.path.join(rd, "laws.cases.ndjson")
    vlib.write_ndjson(cf, batches)
    events, n, nonempty = [], 0, 0
    for sh in vlib.drive(cf, os.path.join(rd, "laws.ev"), timeout_ms=900000):
        for ev in vlib.read_ndjson(sh):
            if ev.get("outcome") != "ok":
                events.append(dict(ev, A={"fin": [], "rules": []}))
                continue
            n += ev["res"]["count"]
            nonempty += ev["res"]["nonempty"]
            events += ev["res"]["suspicious"]
    res.extra["laws_arm_automata"] = n
    res.extra["laws_arm_nonempty"] = nonempty
    res.extra["laws_arm_suspicious"] = len(events)
    if events:
        ef = os.path.join(rd, "laws.suspicious.0.ndjson")
        vlib.write_ndjson(ef, events)
        v = vlib.tlc_validate("TraceTA.tla", [ef])
        res.add_validation(v)
        res.report_fails(v["fails"], os.path.join(vlib.OUT, "viol"))


def model_with_mutants(res, module, cfg, mutants, prefix, timeout=3000):
    m = vlib.tlc_model(module, cfg, coverage=True, timeout=timeout, heap="16g")
    res.add_model(m)
    if not m["ok"]:
        raise vlib.Broken("the Layer-2 model %s/%s violates %s: it no longer describes a correct design (%s)" % (module, cfg, m["violated"], m["log"]))
    never = [a for a, c in m["coverage"].items() if c[0] == 0]
    if never:
        res.extra.setdefault("model_actions_never_taken", {})[module] = never
    refuted = 0
    for mut in mutants:
        ks, info = vlib.tlc_emit(module, "%s_%s.cfg" % (prefix, mut), "KILLER", timeout=timeout)
        if info and not info["ok"]:
            refuted += 1
    if mutants:
        res.extra.setdefault("model_mutants_refuted", {})[module] = "%d/%d" % (refuted, len(mutants))
        if refuted != len(mutants):
            raise vlib.Broken("a mutant of %s is no longer refuted: the invariants have become vacuous" % module)


# ---------------------------------------------------------------------------------------- C02
def nontrivial_both_nonempty(c):
    return vlib.ta_nonempty(c["A"]) and vlib.ta_nonempty(c["B"])


def c02_variants(c, rng):
    """the four constructions, with the map-passing modes the property names"""
    out = []
    u = gen.present_pair(dict(c, op="union"), rng)
    mode = rng.choice(["none", "fresh", "fresh", "pre"])
    u["maps"] = mode
    if mode == "pre":
        # pre-filled entries: targets outside the range Union allocates from, pairwise distinct
        sa = sorted(gen.states_of(u["A"]))
        sb = sorted(gen.states_of(u["B"]))
        u["preL"] = [[q, 1000 + i] for i, q in enumerate(sa) if rng.random() < 0.5]
        u["preR"] = [[q, 2000 + i] for i, q in enumerate(sb) if rng.random() < 0.5]
    out.append(u)
    out.append(gen.present_pair(dict(c, op="uniondisj"), rng, disjoint=True))
    for bu in (False, True):
        i = gen.present_pair(dict(c, op="isect"), rng)
        i["bu"] = bu
        i["maps"] = rng.choice(["none", "fresh", "fresh"])
        out.append(i)
    return out


def check_C02(tier, seed, res, replay=None):
    rd = vlib.rundir("C02", tier)
    res.rule = ("pairs of the TLC-enumerated bound B1 (sampled in quick, all in thorough) and seeded random pairs (<=4 states, <=7 rules); "
                "each pair through Union (no maps / fresh maps / pre-filled maps), UnionDisjointStates (disjoint numbering), Intersection and IntersectionBU "
                "(with and without product map); non-trivial = both operand languages non-empty; distinct by content hash")
    res.assumptions = ["pre-filled Union maps use targets outside 0..n (inside that range the weak translator hands out colliding numbers)",
                       "product maps are passed empty (the construction numbers new states by map size)"]
    if replay:
        return do_replay(res, rd, replay)
    rng = random.Random(seed)
    cases = []
    frac = 1.0 if tier == "thorough" else 0.04
    for c in enum_cases("pair", "abgf", 2, 2, 2, 2, sample=frac, rng=rng):
        cases += c02_variants(c, rng)
    nrand = 12000 if tier == "thorough" else 2000
    for i in range(nrand):
        A, alpha = gen.rand_ta(rng)
        B, _ = gen.rand_ta(rng, alpha=alpha)
        cases += c02_variants({"id": ["r", i], "A": A, "B": B, "src": "random"}, rng)
    for k in load_killers("isect.ndjson"):
        for _ in range(2):
            cases += c02_variants(k, rng)
    res.count_cases(cases, nontrivial_both_nonempty)
    res.add_samples([c for c in cases if nontrivial_both_nonempty(c)][:3])
    run_events(res, rd, "c02", cases)
    import cli_arm
    pick = [c for c in cases if c["op"] in ("union", "isect") and nontrivial_both_nonempty(c)]
    rng.shuffle(pick)
    rest = [c for c in cases if c["op"] in ("union", "isect") and not nontrivial_both_nonempty(c)]
    rng.shuffle(rest)
    ncli = 6000 if tier == "thorough" else 1200
    cli_cases = [{"id": c["id"], "cmd": c["op"], "A": c["A"], "B": c["B"]} for c in pick[:ncli] + rest[:ncli // 4]]
    cli_arm.judge(res, rd, "c02", cli_arm.ta_op_events(cli_cases, rd), "TraceTA.tla")
    # agreement arm: consequences of the contracts on many more random pairs, judged by TLC only where suspicious
    nb, per = (800, 20000) if tier == "thorough" else (64, 10000)
    batches = [{"id": ["c02agree", i], "op": "c02agree", "seed": seed * 7919 + i, "count": per, "shape": ["dense", "mid"][i % 2], "tmo": 900000}
               for i in range(nb)]
    cf = os.path.join(rd, "agree.cases.ndjson")
    vlib.write_ndjson(cf, batches)
    events, pairs, nonempty = [], 0, 0
    for sh in vlib.drive(cf, os.path.join(rd, "agree.ev"), timeout_ms=900000):
        for ev in vlib.read_ndjson(sh):
            if ev.get("outcome") != "ok":
                events.append(dict(ev, op="isect", A={"fin": [], "rules": []}, B={"fin": [], "rules": []}))
                continue
            pairs += ev["res"]["count"]
            nonempty += ev["res"]["nonempty_isect"]
            events += ev["res"]["suspicious"]
    res.extra["agreement_arm_pairs"] = pairs
    res.extra["agreement_arm_pairs_with_nonempty_intersection"] = nonempty
    res.extra["agreement_arm_suspicious"] = len(events)
    if events:
        ef = os.path.join(rd, "agree.suspicious.0.ndjson")
        vlib.write_ndjson(ef, events)
        v = vlib.tlc_validate("TraceTA.tla", [ef])
        res.add_validation(v)
        res.report_fails(v["fails"], os.path.join(vlib.OUT, "viol"))
    # step-level binding of the Layer-2 model Product (hook: Start / Pop in both intersections)
    pool = [c for c in cases if c["op"] == "isect" and c["A"]["rules"] and c["B"]["rules"]]
    rng.shuffle(pool)
    nb = 6000 if tier == "thorough" else 1500
    for bu in (False, True):
        sample = [{"id": c["id"], "op": "isecttrace", "bu": bu, "A": c["A"], "B": c["B"]} for c in pool if c.get("bu", False) == bu][:nb]
        bind_model(res, rd, "bind" + ("bu" if bu else "td"), "Product-" + ("bu" if bu else "td"), sample, "TraceProduct.tla",
                   "TraceProduct_%s.cfg" % ("bu" if bu else "td"))
    # Layer 2: both intersections as work-list machines (top-down from final pairs, bottom-up from leaf pairs with the
    # enter-check-erase treatment of the parent pair), every pair of automata of the bound, every pop order
    q = "" if tier == "thorough" else "_q"
    model_with_mutants(res, "Product.tla", "Product_bu%s.cfg" % q, ["SelfLoopAlways", "FinalAtLeavesOnly"] if tier == "thorough" else [], "Product")
    model_with_mutants(res, "Product.tla", "Product_td%s.cfg" % q, ["FirstFinalOnly", "PushNever"] if tier == "thorough" else [], "Product")


# ---------------------------------------------------------------------------------------- C03
def nontrivial_trim(c):
    a = c["A"]
    return vlib.ta_nonempty(a) or len(vlib.ta_states(a)) > len(vlib.ta_productive(a))


def single_cases(tier, rng, op, frac_quick, extra=None, nrand_quick=3000, nrand_thorough=20000, nums=("id", "rev", "sparse", "perm"), bigger=False, wide=True, fan=400):
    """B1' (<=3 states, <=3 rules over a,b,g,f; TLC-enumerated) + seeded random automata, each under a presentation"""
    cases = []
    frac = 1.0 if tier == "thorough" else frac_quick
    for c in enum_cases("single", "abgf", 3, 3, sample=frac, rng=rng):
        d = dict(c, op=op)
        d["A"] = gen.present(c["A"], rng, rng.choice(nums), n=3)
        d["syms"] = gen.syms_of(d["A"])
        rng.shuffle(d["syms"])
        if extra:
            extra(d, rng)
        maybe_split(d, rng)
        cases.append(d)
    for i in range(nrand_thorough if tier == "thorough" else nrand_quick):
        if bigger and i % 2 == 0:
            # more states and a small alphabet: several simulation-equivalent / simulation-ordered states
            nq = rng.choice([4, 5, 6, 7])
            A, alpha = gen.rand_ta(rng, nq=nq, nrules=rng.randint(nq, 2 * nq + 2), alpha=rng.choice([[["a", 0], ["b", 1]], [["a", 0], ["g", 1], ["f", 2]], [["a", 0], ["b", 0], ["g", 1]]]))
        else:
            A, alpha = gen.rand_ta(rng)
        d = {"id": ["r", i], "op": op, "src": "random"}
        d["A"] = gen.present(A, rng, rng.choice(nums))
        d["syms"] = gen.syms_of(d["A"])
        if extra:
            extra(d, rng)
        maybe_split(d, rng)
        cases.append(d)
    if fan:
        # the FAN family: one child tuple under several parents / symbols, identical rule sets (see gen.fan_ta)
        for i in range(8 * fan if tier == "thorough" else fan):
            d = {"id": ["fan", i], "op": op, "src": "fan"}
            d["A"] = gen.present(gen.fan_ta(rng), rng, rng.choice(nums))
            d["syms"] = gen.syms_of(d["A"])
            if extra:
                extra(d, rng)
            maybe_split(d, rng)
            cases.append(d)
    if wide:
        # the WIDE family: ranks swept across size thresholds (see gen.wide_ta)
        ranks = gen.WIDE_THOROUGH if tier == "thorough" else gen.WIDE_QUICK
        for k in ranks:
            for j in range(3 if tier == "thorough" or k > 12 else 2):
                d = {"id": ["wide", k, j], "op": op, "src": "wide"}
                d["A"] = gen.present(gen.wide_ta(rng, k), rng, rng.choice([x for x in nums if x not in ("huge", "top")]))
                d["syms"] = gen.syms_of(d["A"])
                if extra:
                    extra(d, rng)
                cases.append(d)
    return cases


def maybe_split(d, rng):
    """ask-twice mode for ops that support it in the driver (trim, reduce, compl, witness; sim sets its own)"""
    if rng.random() < 0.15:
        d["amode"] = "copy"       # a copy of the operand (sharing its storage) is alive during the call and read back afterwards
    if d["op"] in ("trim", "reduce", "compl", "witness") and len(d["A"]["rules"]) >= 2 and rng.random() < 0.2:
        d["split"] = rng.randint(1, len(d["A"]["rules"]) - 1)
        if rng.random() < 0.4:
            # the final states arrive with the second stage; the second stage may consist of final states only
            d["splitfin"] = True
            d["split"] = rng.randint(1, len(d["A"]["rules"]))
    if rng.random() < 0.12:
        d["build"] = "load"       # the operand is assembled through LoadFromAutDesc (every stage ADDS to the object) instead of AddTransition
    if d["op"] == "reduce" and rng.random() < 0.3:
        d["viaparam"] = True
    if d["op"] == "trim" and rng.random() < 0.15:
        # the optional translation map handed to the trimmers already holds entries (a map reused over several calls)
        st = sorted(gen.states_of(d["A"]))
        d["premap"] = sorted(set(q for q in st if rng.random() < 0.5) | ({max(st + [0]) + 1} if rng.random() < 0.3 else set()))


def check_C03(tier, seed, res, replay=None):
    rd = vlib.rundir("C03", tier)
    res.rule = ("single automata of bound B1' (<=3 states, <=3 rules over a/0,b/0,g/1,f/2; TLC-enumerated, sampled in quick) plus killer inputs and seeded random "
                "automata (<=4 states, <=7 rules) under random numberings; RemoveUnreachableStates, RemoveUselessStates and IsLangEmpty in one event; "
                "non-trivial = language non-empty or some state unproductive; distinct by content hash")
    if replay:
        return do_replay(res, rd, replay)
    rng = random.Random(seed)
    cases = single_cases(tier, rng, "trim", 0.5, nums=("id", "rev", "sparse", "perm", "huge", "top", "pow2"))
    for k in load_killers("trim.ndjson"):
        cases.append(dict(k, op="trim"))
    res.count_cases(cases, nontrivial_trim)
    res.add_samples([c for c in cases if nontrivial_trim(c)][:3])
    run_events(res, rd, "c03", cases)
    laws_arm(res, rd, tier, seed, "trim")
    import cli_arm
    pick = [c for c in cases if nontrivial_trim(c) and c["A"]["rules"]]
    rng.shuffle(pick)
    cli_cases = [{"id": c["id"], "cmd": rng.choice(["load-p", "load-s"]), "A": c["A"]} for c in pick[:8000 if tier == "thorough" else 1500]]
    cli_arm.judge(res, rd, "c03", cli_arm.ta_op_events(cli_cases, rd), "TraceTA.tla")
    # step-level binding of the Layer-2 model Trim (hook: Start / Pop in both trimmers)
    pool = [c for c in cases if c["A"]["rules"] and "premap" not in c]
    rng.shuffle(pool)
    sample = [{"id": c["id"], "op": "trimtrace", "mode": rng.choice(["unreach", "useless"]), "A": c["A"], "syms": c.get("syms", [])}
              for c in pool[:12000 if tier == "thorough" else 2500]]
    bind_model(res, rd, "bind", "Trim", sample, "TraceTrim.tla", "TraceTrim.cfg")
    # Layer 2: both trimmers as work-list machines with their counters, every automaton of the bound, every pop order
    model_with_mutants(res, "Trim.tla", "Trim4.cfg" if tier == "thorough" else "Trim.cfg",
                       ["SizeCompare", "ArityDecrement", "EarlyExit"] if tier == "thorough" else [], "Trim")


# ---------------------------------------------------------------------------------------- C04
def dense(c, rng):
    """simulation needs states 0..n-1 and n: random dense numbering; n = number of states"""
    a = c["A"]
    if not vlib.ta_is_trim(a) and rng.random() < 0.5:
        t = vlib.ta_trim(a)          # shape half of the untrimmed inputs into the upward simulation's domain
        if t["rules"]:
            a = t
    st = sorted(gen.states_of(a))
    perm = list(range(len(st)))
    rng.shuffle(perm)
    f = {q: perm[i] for i, q in enumerate(st)}
    c["A"] = gen.rename(a, f)
    rng.shuffle(c["A"]["rules"])
    c["n"] = len(st)
    # the upward simulation is specified for automata without useless states only
    c["dirs"] = ["down", "up"] if vlib.ta_is_trim(c["A"]) else ["down"]
    if rng.random() < 0.3:
        c["relcopy"] = True        # the relation is read through a copy whose source variable is re-used
    if len(c["A"]["rules"]) >= 2 and rng.random() < 0.35:
        c["split"] = rng.randint(1, len(c["A"]["rules"]) - 1)      # ask the same object before and after the last rules are added


def check_C04(tier, seed, res, replay=None):
    rd = vlib.rundir("C04", tier)
    res.rule = ("single automata of bound B1' (TLC-enumerated) and seeded random automata under random DENSE numberings 0..n-1 with n passed as the number of states; "
                "downward simulation judged for every automaton, upward simulation for trimmed ones; non-trivial = automaton has >=2 states and a non-leaf rule")
    if replay:
        return do_replay(res, rd, replay)
    rng = random.Random(seed)
    cases = single_cases(tier, rng, "sim", 0.5, extra=dense, fan=2500)
    for k in load_killers("sim.ndjson"):
        cases.append(dict(k, op="sim"))
    nt = lambda c: c["n"] >= 2 and any(len(r[1]) for r in c["A"]["rules"])
    res.count_cases(cases, nt)
    res.add_samples([c for c in cases if nt(c)][:3])
    run_events(res, rd, "c04", cases)
    laws_arm(res, rd, tier, seed, "sim", per_quick=2000, per_thorough=5000)
    import cli_arm
    pick = [c for c in cases if nt(c) and "split" not in c and c.get("op") == "sim" and c["A"]["rules"]]
    rng.shuffle(pick)
    cli_arm.judge(res, rd, "sim", cli_arm.sim_events(pick[:8000 if tier == "thorough" else 1500], rd), "TraceTA.tla")
    # binding of the Layer-2 model SimEnc: the LTS the real TranslateDownward / TranslateUpward build (read back through
    # ExplicitLTS::post), the initial partition / relation and the engine's answer on it, judged by TraceSimEnc
    pool = [c for c in cases if c.get("op") == "sim" and c["A"]["rules"] and c.get("src") != "wide"]
    rng.shuffle(pool)
    pool.sort(key=lambda c: c.get("src") != "fan")          # the fan family first (stable: the rest stays shuffled)
    sample = []
    for c in pool[:20000 if tier == "thorough" else 5000]:
        for d in c["dirs"]:
            sample.append({"id": c["id"], "op": "simenc", "dir": d, "A": c["A"], "n": c["n"]})
    bind_events(res, rd, "simenc", "SimEnc", sample, "TraceSimEnc.tla")
    # Layer 2: both encodings for every automaton of the bound under every numbering
    model_with_mutants(res, "SimEnc.tla", "SimEnc.cfg", [], "SimEnc")
    model_with_mutants(res, "SimEnc.tla", "SimEncR3.cfg", [], "SimEnc")
    if tier == "thorough":
        model_with_mutants(res, "SimEnc.tla", "SimEnc3.cfg",
                           ["DoubleIdx", "EnvNoParent", "EnvNoIndex", "OneBlock", "SkipLeaf", "SharedPos"], "SimEnc")


# ---------------------------------------------------------------------------------------- C05
def check_C05(tier, seed, res, replay=None):
    rd = vlib.rundir("C05", tier)
    res.rule = ("single automata of bound B1' (TLC-enumerated) and seeded random automata under identity/reversed/sparse/permuted numberings; "
                "non-trivial = language non-empty and >= 2 states")
    if replay:
        return do_replay(res, rd, replay)
    rng = random.Random(seed)
    cases = single_cases(tier, rng, "reduce", 0.5, nrand_quick=12000, nrand_thorough=60000, bigger=True, fan=200, nums=("id", "rev", "sparse", "perm", "huge", "top", "pow2"))
    for k in load_killers("reduce.ndjson"):
        cases.append(dict(k, op="reduce"))
    nt = lambda c: vlib.ta_nonempty(c["A"]) and len(vlib.ta_states(c["A"])) >= 2
    res.count_cases(cases, nt)
    res.add_samples([c for c in cases if nt(c)][:3])
    run_events(res, rd, "c05", cases)
    laws_arm(res, rd, tier, seed, "reduce")
    # Layer 2: Reduce as the pipeline it is (simulation -> symmetric restriction -> projection -> collapse -> trimming),
    # every automaton of the bound, every choice of class representatives
    model_with_mutants(res, "Reduce.tla", "Reduce.cfg" if tier == "thorough" else "Reduce2.cfg",
                       ["NonSymmetric", "UseUpSim"] if tier == "thorough" else [], "Reduce")
    if tier == "thorough":
        res.add_model(vlib.tlc_model("Reduce.tla", "ReduceNoUnreach.cfg", timeout=3000, heap="16g"))
    import cli_arm
    pick = [c for c in cases if nt(c)]
    rng.shuffle(pick)
    cli_arm.judge(res, rd, "c05", cli_arm.ta_op_events([{"id": c["id"], "cmd": "red", "A": c["A"]} for c in pick[:6000 if tier == "thorough" else 1200]], rd), "TraceTA.tla")


# ---------------------------------------------------------------------------------------- C06
def compl_extra(c, rng):
    """the alphabet: symbols of A plus registered-but-unused ones, in random registration order"""
    syms = gen.syms_of(c["A"])
    for s in [["a", 0], ["b", 0], ["g", 1], ["f", 2], ["z", 0], ["u", 1]]:
        if s not in syms and rng.random() < 0.3:
            syms.append(s)
    rng.shuffle(syms)
    c["syms"] = syms


def check_C06(tier, seed, res, replay=None):
    rd = vlib.rundir("C06", tier)
    res.rule = ("single automata of bound B1' (TLC-enumerated) and seeded random automata, each with a private on-the-fly alphabet = symbols of A plus random "
                "registered-but-unused symbols (incl. nullary-only alphabets); non-trivial = A's language neither empty nor its rule set empty")
    res.assumptions = ["rules of the result are read as symbol numbers through the operand's alphabet (the result object carries the process-wide default alphabet)"]
    if replay:
        return do_replay(res, rd, replay)
    rng = random.Random(seed)
    cases = single_cases(tier, rng, "compl", 0.05, extra=compl_extra, nrand_quick=1500, nrand_thorough=8000, wide=False, fan=0)
    for k in load_killers("compl.ndjson"):
        cases.append(dict(k, op="compl"))
    nt = lambda c: vlib.ta_nonempty(c["A"])
    res.count_cases(cases, nt)
    res.add_samples([c for c in cases if nt(c)][:3])
    run_events(res, rd, "c06", cases, timeout_ms=10000)
    laws_arm(res, rd, tier, seed, "compl", per_quick=3000)
    # Layer 2: the downward complementation as written (macro-states, one rule per choice function), with the identity
    # preorder Complement() passes and with the downward simulation it is written for; every automaton and alphabet of the bound
    model_with_mutants(res, "Complement.tla", "Complement3.cfg" if tier == "thorough" else "Complement.cfg",
                       ["LeafAlways", "NoRuleOnEmptyW", "AllPositions", "KeepMinimal"] if tier == "thorough" else [], "Complement")
    res.add_model(vlib.tlc_model("Complement.tla", "ComplementPre3.cfg" if tier == "thorough" else "ComplementPre.cfg", timeout=3000, heap="16g"))
    import cli_arm
    pick = [c for c in cases if nt(c) and len(vlib.ta_states(c["A"])) <= 4]
    rng.shuffle(pick)
    cli_cases = [{"id": c["id"], "cmd": "cmpl", "A": c["A"], "syms": [s for s in c["syms"]] + [s for s in gen.syms_of(c["A"]) if s not in c["syms"]]}
                 for c in pick[:4000 if tier == "thorough" else 800]]
    cli_arm.judge(res, rd, "c06", cli_arm.ta_op_events(cli_cases, rd), "TraceTA.tla")


# ---------------------------------------------------------------------------------------- C14
def reindex_extra(c, rng):
    st = sorted(gen.states_of(c["A"]))
    how = rng.choice(["weak", "weak", "fctor", "dst", "collapse", "collapse"])
    c["how"] = how
    kind = rng.choice(["inj", "merge", "ident", "sparse", "perm"])
    targets = {"inj": None, "merge": [0, 1], "ident": None, "sparse": None, "perm": None}[kind]
    m = {}
    if kind == "perm":
        # a permutation of the automaton's own states (not idempotent: images land on numbers that are in use)
        p = list(st)
        rng.shuffle(p)
        m = {q: p[i] for i, q in enumerate(st)}
    elif kind == "inj":
        p = list(range(len(st)))
        rng.shuffle(p)
        m = {q: p[i] + 20 for i, q in enumerate(st)}
    elif kind == "merge":
        m = {q: rng.choice(targets) for q in st}
    elif kind == "ident":
        m = {q: q for q in st}
    else:
        m = {q: 1000 * (i + 1) + 7 for i, q in enumerate(st)}
    if how == "weak":
        # partial pre-filled map; unknown states are numbered from base on
        keep = {q: v for q, v in m.items() if rng.random() < 0.5}
        c["map"] = [[q, v] for q, v in keep.items()]
        c["base"] = rng.choice([0, 5, 5000])
        if any(v >= c["base"] and v < c["base"] + len(st) for v in keep.values()):
            c["base"] = 5000          # avoid colliding with the pre-filled targets (outside the property's domain)
    else:
        c["map"] = [[q, v] for q, v in m.items()]
    if how == "dst":
        D, _ = gen.rand_ta(rng, nq=2, nrules=rng.choice([0, 1, 2]), alpha=[s for s in gen.syms_of(c["A"])] or [["a", 0]])
        c["D"] = D
        if rng.random() < 0.5:
            c["D"] = {"fin": list(c["A"]["fin"]), "rules": [list(r) for r in c["A"]["rules"]]}
            c["dshare"] = True      # the destination is a copy of the source sharing its storage (value: D = A)
    if how in ("fctor", "dst") and rng.random() < 0.3:
        c["addFinal"] = False
    c["mapkind"] = kind


def translsym_extra(c, rng):
    syms = gen.syms_of(c["A"])
    names = ["a", "b", "g", "f", "x", "y"]
    c["symmap"] = [[s[0], s[1], rng.choice(names)] for s in syms]


def check_C14(tier, seed, res, replay=None):
    rd = vlib.rundir("C14", tier)
    res.rule = ("single automata of bound B1' (TLC-enumerated) and random automata x state maps (injective, merging, identity, sparse) through ReindexStates "
                "(weak translator with partial pre-filled map, functor, functor into a non-empty destination) and CollapseStates, and symbol maps through "
                "TranslateSymbols; non-trivial = map is not the identity and the automaton has a rule")
    if replay:
        return do_replay(res, rd, replay)
    rng = random.Random(seed)
    cases = single_cases(tier, rng, "reindex", 0.10, extra=reindex_extra)
    cases += single_cases(tier, rng, "translsym", 0.05, extra=translsym_extra, nrand_quick=1000, nrand_thorough=5000)
    nt = lambda c: bool(c["A"]["rules"]) and c.get("mapkind") != "ident"
    res.count_cases(cases, nt)
    res.add_samples([c for c in cases if nt(c)][:3])
    run_events(res, rd, "c14", cases)


# ---------------------------------------------------------------------------------------- C15
def check_C15(tier, seed, res, replay=None):
    rd = vlib.rundir("C15", tier)
    res.rule = ("single automata of bound B1' (TLC-enumerated) and seeded random automata under random numberings; GetCandidateTree; "
                "non-trivial = language non-empty")
    if replay:
        return do_replay(res, rd, replay)
    rng = random.Random(seed)
    cases = single_cases(tier, rng, "witness", 0.15, nums=("id", "rev", "sparse", "perm", "huge", "top", "pow2"))
    for k in load_killers("witness.ndjson"):
        cases.append(dict(k, op="witness", syms=gen.syms_of(k["A"])))
    nt = lambda c: vlib.ta_nonempty(c["A"])
    res.count_cases(cases, nt)
    res.add_samples([c for c in cases if nt(c)][:3])
    run_events(res, rd, "c15", cases)
    laws_arm(res, rd, tier, seed, "witness")
    import cli_arm
    pick = [c for c in cases if c["A"]["rules"]]
    rng.shuffle(pick)
    cli_arm.judge(res, rd, "c15", cli_arm.ta_op_events([{"id": c["id"], "cmd": "witness", "A": c["A"]} for c in pick[:6000 if tier == "thorough" else 1200]], rd), "TraceTA.tla")
    # step-level binding of the Layer-2 model Candidate (hook: Start / Pop in GetCandidateTree)
    pool = [c for c in cases if c["A"]["rules"] and c.get("src") != "wide"]
    rng.shuffle(pool)
    sample = [{"id": c["id"], "op": "candtrace", "A": c["A"], "syms": c.get("syms", [])} for c in pool[:12000 if tier == "thorough" else 2500]]
    bind_model(res, rd, "bind", "Candidate", sample, "TraceCandidate.tla", "TraceCandidate.cfg")
    # Layer 2: the witness search as a work-list machine (missing-children sets, early exit, `remaining` counter), every automaton
    # of the bound, every pop order and every order of the rules inside a pop
    model_with_mutants(res, "Candidate.tla", "Candidate3.cfg" if tier == "thorough" else "Candidate4.cfg",
                       ["ExitBeforeRecord", "MultisetChildren", "NoLeafWork"] if tier == "thorough" else [], "Candidate")
    if tier == "thorough":
        model_with_mutants(res, "Candidate.tla", "Candidate4.cfg", [], "Candidate")
