# Checks for the pure operations on explicit tree automata: C01-C06, C14, C15.
import json
import os
import random

import gen
import vlib
from vlib import log

TA_DEPS = ["TA.tla", "GenTA.tla"]


def gen_envs(mode, alpha, nq, maxr, nqb=None, maxrb=None, shards=16):
    envs = []
    for s in range(shards):
        e = {"GEN_MODE": mode, "GEN_ALPHA": alpha, "GEN_NQ": str(nq), "GEN_MAXR": str(maxr),
             "GEN_SHARD": str(s), "GEN_NSHARDS": str(shards)}
        if nqb is not None:
            e["GEN_NQB"] = str(nqb)
            e["GEN_MAXRB"] = str(maxrb)
        envs.append(e)
    return envs


def enum_cases(mode, alpha, nq, maxr, nqb=None, maxrb=None, sample=None, rng=None):
    """all automata / pairs of the bound as enumerated by TLC (GenTA.tla), optionally a seeded subsample"""
    tag = "%s-%s-%d-%d-%s-%s" % (mode, alpha, nq, maxr, nqb, maxrb)
    files = vlib.tlc_generate("GenTA.tla", gen_envs(mode, alpha, nq, maxr, nqb, maxrb), TA_DEPS, tag)
    out = []
    for f in files:
        with open(f) as fh:
            for line in fh:
                if sample is not None and rng.random() >= sample:
                    continue
                c = json.loads(line)
                c["src"] = tag
                out.append(c)
    return out


def load_killers(name):
    p = os.path.join(vlib.SPEC, "killers", name)
    return vlib.read_ndjson(p) if os.path.exists(p) else []


def run_events(res, rd, name, cases, module="TraceTA.tla", timeout_ms=5000, heap="3g"):
    """drive the cases on the real library, let TLC judge every recorded event"""
    if not cases:
        return
    cf = os.path.join(rd, name + ".cases.ndjson")
    vlib.write_ndjson(cf, cases)
    shards = vlib.drive(cf, os.path.join(rd, name + ".ev"), timeout_ms=timeout_ms)
    v = vlib.tlc_validate(module, shards, heap=heap)
    res.add_validation(v)
    res.report_fails(v["fails"], os.path.join(vlib.OUT, "viol"))
    res.checker_cmds.append("vdrive run %s; TRACE=<shard> tlc -continue -config %s %s" % (
        os.path.basename(cf), module.replace(".tla", ".cfg"), module))
    return v


def do_replay(res, rd, replay, module="TraceTA.tla"):
    cases = vlib.read_ndjson(replay)
    res.count_cases(cases, lambda c: True)
    res.add_samples(cases)
    run_events(res, rd, "replay", cases, module)
    res.rule = "replay of " + replay


# ---------------------------------------------------------------------------------------- C01
def nontrivial_pair(c):
    return vlib.ta_nonempty(c["A"]) and vlib.ta_nonempty(c["B"]) and any(len(r[1]) > 0 for r in c["A"]["rules"])


def check_C01(tier, seed, res, replay=None):
    rd = vlib.rundir("C01", tier)
    res.rule = ("all pairs of tree automata of the TLC-enumerated bounds (B1: <=2 states, <=2 rules over a/0,b/0,g/1,f/2; "
                "B1b sample: <=2 states, <=3 rules over a/0,b/0,f/2), killer inputs, and seeded random pairs (<=4 states, <=7 rules), "
                "each under a pseudo-random presentation (state numbering incl. overlapping operands, rule and symbol order); "
                "all 8 selections per case; non-trivial = both languages non-empty and A has a non-leaf rule; distinct by content hash")
    res.assumptions = ["TLC evaluates TA!Incl (bottom-up macro-state fixpoint) correctly; self-checked against bounded tree enumeration in TAcheck",
                       "simulation-based selections are prepared as cli/operations.hh does (sanitise, disjoint union, SetNumStates)"]
    if replay:
        return do_replay(res, rd, replay)
    rng = random.Random(seed)
    cases = []
    frac = None if tier == "thorough" else None
    for c in enum_cases("pair", "abgf", 2, 2, 2, 2, sample=frac, rng=rng):
        cases.append(gen.present_pair(dict(c, op="incl"), rng))
    b1b = 1.0 if tier == "thorough" else 0.05
    for c in enum_cases("pair", "abf", 2, 3, 2, 3, sample=b1b, rng=rng):
        cases.append(gen.present_pair(dict(c, op="incl"), rng))
    for k in load_killers("incl.ndjson"):
        for _ in range(4):
            cases.append(gen.present_pair(dict(k, op="incl"), rng))
    nrand = 20000 if tier == "thorough" else 4000
    for i in range(nrand):
        A, alpha = gen.rand_ta(rng)
        B, _ = gen.rand_ta(rng, alpha=alpha)
        cases.append(gen.present_pair({"id": ["r", i], "op": "incl", "A": A, "B": B, "src": "random"}, rng))
    res.count_cases(cases, nontrivial_pair)
    res.add_samples([c for c in cases if nontrivial_pair(c)][:2] + cases[-1:])
    run_events(res, rd, "incl", cases)
