#!/usr/bin/env python3
# usage: keep_seed.py <seed dir> <seed id> <property> <needs> <confirm line> <seedtest line> [caught_by]
import json, os, shutil, sys
sd, sid, prop, needs, confirm, seedtest = sys.argv[1:7]
caught_by = sys.argv[7] if len(sys.argv) > 7 else ""
dst = os.path.join("/verif/seeded", sid)
os.makedirs(dst, exist_ok=True)
for f in os.listdir(sd):
    p = os.path.join(sd, f)
    if os.path.isfile(p) and os.path.getsize(p) < 200000 and (f.endswith((".diff", ".cc", ".hh", ".md", ".sh", ".py", ".txt")) or f in ("demo",)):
        shutil.copy(p, dst)
meta = {"id": sid, "property": prop, "breaks": prop, "needs_to_manifest": needs,
        "confirmed_in_scratch_worktree": confirm, "checks_run": seedtest,
        "detected": "exit=1" in seedtest, "caught_by": caught_by,
        "source": "independent sub-agent given only the property text and a scratch worktree"}
json.dump(meta, open(os.path.join(dst, "meta.json"), "w"), indent=1)
print("kept", dst)
