#!/usr/bin/env python3
# Regenerates /verif/MANIFEST.json from the table below (single source of truth for what is claimed).
import json
import os

VERIF = os.path.dirname(os.path.dirname(os.path.abspath(__file__)))

MC = "model_checking"
CLAIMS = {
    # id: (category, technique, text, note, design_ref)
    "C01": (MC, "TLC-enumerated + random + killer cases replayed on libvata (API and vata CLI) and judged by TLA+ trace validation against TA!Incl; oracle-free agreement arm (millions of pairs, disagreements judged by TLC); TLC model check of the upward (all work-list orders) and downward antichain algorithms; oracle self-check against naive tree semantics",
            "Every pair of tree automata of the exhaustive small bounds (TLC-enumerated) and seeded random pairs are run through all 8 selections of the real "
            "CheckInclusion under varying presentations; TLC judges every recorded verdict against the bottom-up macro-state fixpoint of spec/TA.tla. "
            "The Layer-2 models of the upward and downward antichain algorithms are model-checked for every work-list order on the same bound.",
            "Trusted: TLC, the Layer-0 oracle (cross-checked in TLC against bounded tree enumeration), the driver's read-back through the public API. "
            "Exhaustive only within the stated bounds; sampled beyond.", "DESIGN.md §4 C01"),
    "C02": (MC, "TLC-enumerated and random operand pairs replayed on libvata (API and vata CLI); TLA+ trace validation of result automaton, reported maps and operand snapshots against TA!Union / TA!Prod; agreement arm Intersection vs IntersectionBU",
            "Union, UnionDisjointStates, Intersection and IntersectionBU are run on every sampled pair of the exhaustive bound and on random pairs (overlapping numbers, "
            "no / fresh / pre-filled maps); TLC decides language equality with the spec's union/product, that every result state is named by the maps and has the "
            "language of what it stands for, and that operands are unchanged.",
            "Trusted: TLC, Layer-0 oracle, driver read-back. Non-canonical results (state naming) are judged by contract, not by a fixed expected output.", "DESIGN.md §4 C02"),
    "C03": (MC, "TLC-enumerated, random and killer automata replayed on libvata (API, ask-twice mode, vata CLI); TLA+ trace validation against TA!Trim / TopReach / Empty; laws arm; TLC model check of both trimmers as work-list machines (all pop orders, mutants refuted)",
            "RemoveUnreachableStates, RemoveUselessStates and IsLangEmpty are run on the single automata of bound B1' and random ones; TLC decides language "
            "preservation, the reachability / usefulness postconditions and the emptiness verdict.", "Trusted: TLC, Layer-0 oracle, driver read-back.", "DESIGN.md §4 C03"),
    "C04": (MC, "TLC-enumerated, random, FAN and WIDE automata under random dense numberings replayed on libvata (API, vata CLI); relations compared entry by entry with the greatest fixpoints TA!DownSim / TA!UpSim; TLC model check of both tree-automaton -> LTS encodings (SimEnc: every automaton of the bound, every numbering, mutants refuted) bound to the code by TLA+ trace validation of the LTS the real translators build (TraceSimEnc)",
            "The relation returned by ComputeSimulation is read with get(q,r) for all q,r<n and compared with the spec's greatest downward simulation (every input) and "
            "greatest upward simulation (trimmed inputs) computed by TLC; numbering independence follows because every case is run under a random dense numbering.",
            "Trusted: TLC, the gfp definitions in spec/TA.tla (these are the property's own wording).", "DESIGN.md §4 C04"),
    "C05": (MC, "TLC-enumerated and random automata replayed on libvata; TLA+ trace validation of Reduce's result",
            "TLC decides language equality, the two size bounds and that every result state has the language of some input state.", "Trusted: TLC, Layer-0 oracle.", "DESIGN.md §4 C05"),
    "C06": (MC, "TLC-enumerated and random automata x private alphabets replayed on libvata; TLA+ trace validation: A and C disjoint, A u C universal over S, Syms(C) within S",
            "Complement is run with a private on-the-fly alphabet per case (extra registered symbols, nullary-only alphabets, empty and universal languages); TLC decides "
            "the three clauses with the inclusion oracle.", "Result rules are interpreted through the operand's alphabet.", "DESIGN.md §4 C06"),
    "C14": (MC, "TLC-enumerated and random automata x state/symbol maps replayed on libvata; result compared for set equality with TA!Image",
            "ReindexStates (weak translator with pre-filled partial map, functor, functor into a non-empty destination), CollapseStates and TranslateSymbols: TLC checks "
            "result = image exactly, and the contents of weak translators after the call.", "Trusted: TLC, driver read-back.", "DESIGN.md §4 C14"),
    "C15": (MC, "TLC-enumerated, random and killer automata (numberings up to SIZE_MAX, build-via-load, ask-twice) replayed on libvata; TLA+ trace validation of GetCandidateTree's result; TLC model check of the witness search as a work-list machine (Candidate: all pop and visit orders, mutants refuted) bound to the code by step-level trace validation (TraceCandidate)",
            "TLC decides L(W) within L(A) and W non-empty whenever A is.", "Trusted: TLC, Layer-0 oracle.", "DESIGN.md §4 C15"),
    "C09": (MC, "TLC-enumerated and random NFA pairs replayed on libvata under a per-case watchdog; verdicts judged by TLC against FA!FAIncl; TLC model check (safety + liveness) of the antichain algorithm with its memo over all pick orders",
            "Each NFA pair is run through the antichain and both congruence selections of the real CheckInclusion (several presentations and heap perturbations); TLC "
            "judges each verdict with the forward subset-construction fixpoint; hangs and crashes are violations. The FAAntichain Layer-2 model is checked for every "
            "pick order for exactness and termination.",
            "Trusted: TLC, the Layer-0 oracle (cross-checked against bounded word enumeration). Pointer-order dependent schedules of the implementation are sampled by heap perturbation only.", "DESIGN.md §4 C09"),
    "C10": (MC, "TLC-enumerated, random, HUB and killer NFAs replayed on libvata (API with pipelines, vata CLI with ordinary / suffixed / long state names); results judged by TLC against FA!FUnion / FProd / FRev / language equality; TLC model check of the constructions as work-list machines (FAOps: all pop orders, mutants refuted) bound to the code by step-level trace validation (TraceFAOps)",
            "Union, UnionDisjointStates, Intersection, Reverse, both trimmings and GetCandidateTree on enumerated and random NFAs (eps-accepting, several start states, "
            "one-sided start pairs); TLC decides the language contracts; a crash while dumping a result is a violation.",
            "Trusted: TLC, Layer-0 oracle, the Timbuk parser used for read-back (checked by C13).", "DESIGN.md §4 C10"),
    "C11": (MC, "TLC model check of the copy-on-write storage model (CowStore refines Value, all interleavings, mutants refuted); TLC-generated and random handle histories replayed on real automata; sequential TLA+ trace validation (TraceValue) of every live handle after every step",
            "The three-level shared rule storage with its unique()-tests is model-checked against the abstract value specification for every interleaving of "
            "new/copy/assign/add/clear/final/derive/destroy over 3 handles; the discovery path of every model state and the killer histories of the model mutants are "
            "replayed on ExplicitTreeAut, and long random histories (tree and finite automata, incl. moves, library operations and repeated queries) are recorded; "
            "TLC accepts a recorded execution only if it is a behaviour of Value.tla with the logged projection of ALL live handles matching after EVERY step and "
            "every derived result / verdict satisfying its contract on the current operand values.",
            "Trusted: TLC, the projection through the public iteration API (checked by C12), Layer-0 oracle for derived results. Bounds: model 3 handles / 2 states / "
            "5-6 steps; recorded histories 4 handles / 20-60 steps.", "DESIGN.md §4 C11"),
    "C12": (MC, "random container histories replayed on ExplicitTreeAut with all read-only views logged after every step; sequential TLA+ trace validation (TraceValue: ViewOK)",
            "After every mutating step TLC checks, for every live handle, that iteration yields each rule exactly once (bag = set = spec value), and that GetAcceptTrans, "
            "operator[], ContainsTransition (both overloads, incl. never-added rules), GetUsedStates, AreTransitionsEmpty and IsStateFinal agree with the spec value; "
            "raw symbol numbers are used with several arities.",
            "Trusted: TLC. The universe of rules/states queried is finite (14 rules, 6 states).", "DESIGN.md §4 C12"),
    "C16": (MC, "TLC-enumerated LTS x partition x block-preorder cases and random LTSs replayed on ExplicitLTS::computeSimulation; relation compared entry by entry with the greatest fixpoint LTS!GSim",
            "Every LTS of the bound with every partition and every reflexive-transitive block relation (plus random larger ones with parallel edges and truncated "
            "output size) is run through the real engine; TLC computes the greatest simulation inside the lifted preorder and compares all k*k entries.",
            "Trusted: TLC and the gfp definition (the property's wording).", "DESIGN.md §4 C16"),
    "C17": (MC, "random and killer MTBDD handle histories (incl. spread physical variable indices beyond 16 bits, reused functor objects) replayed on OndriksMTBDD<int>; sequential TLA+ trace validation (TraceMtbdd) of full value tables, default values and == after every step against the function semantics MTBDDSem; TLC model check of the binary apply on node structures (Apply: memo, branching, reduction; two calls on one functor; mutants refuted)",
            "Every operation of the package (construction with don't-cares, apply1/2/3, Project, Rename, ExtendWith, GetMtbddForPrefix, copy, assign, destroy) is a "
            "spec action on functions [assignment -> value]; TLC accepts a recorded history only if after every step the logged 16-entry table of every live handle "
            "equals the spec function and == holds exactly between equal functions (canonicity).",
            "Trusted: TLC. 4 variables, values mod 5, 4 handles; Rename/ExtendWith arguments inside their documented domains.", "DESIGN.md §4 C17"),
    "C18": (MC, "TLC model check of the reference-count protocol (MtbddStore: store = reachable nodes, counts = referrers, mutants refuted); TLC-generated and random histories replayed on OndriksMTBDD with unique-table sizes read through the VATA_VERIF hook; sequential trace validation of sizes and values",
            "The spec computes the exact node set of the reduced diagrams of the live functions; after every step the logged sizes of the leaf and internal unique "
            "tables must equal it (nothing released early, nothing leaked) and every live handle keeps its function; at the end of each history the store is back at "
            "its base size. The protocol itself is model-checked for all interleavings of mk/copy/assign(self)/apply/destroy over 3 handles.",
            "Trusted: TLC, the two read-only hook accessors. Double release that happens not to change a size/value is only caught by the model, not observed on the code "
            "(no sanitizer in this family).", "DESIGN.md §4 C18"),
    "C07": (MC, "TLC-enumerated and random pairs rendered as Timbuk text, loaded into both BDD encodings and run through every selection (API, vata CLI); verdicts judged by TLC against TA!Incl (same oracle as the explicit encoding); agreement arm against the explicit encoding; TLC model check of the bottom-up upward antichain algorithm as repaired (InclUpBdd: every pair of the bound, every schedule, mutants incl. defect D9 refuted)",
            "For each pair the 6 implemented selections (BU upward, BU downward+simulation, TD downward with/without cache and with/without simulation) and 4 "
            "unimplemented probes are executed; TLC rejects any verdict that differs from the bottom-up macro-state fixpoint and any exception other than "
            "NotImplementedException from an implemented selection.",
            "Trusted: TLC, Layer-0 oracle, the Timbuk loader (C13). 16-bit symbol encoding exercised with <= 7 symbols only.", "DESIGN.md §4 C07"),
    "C08": (MC, "random histories of BDD automata sharing one transition table replayed on both encodings; every live automaton dumped after every step; sequential TLA+ trace validation (TraceBdd) of operation contracts and of language preservation of all other handles",
            "load / copy / assign / destroy / Union / UnionDisjointStates / Intersection / both trimmings / GetTopDownAut as spec actions; a recorded history is accepted "
            "only if each result satisfies its language contract on the current operand values and every other live automaton still denotes the language it denoted before.",
            "Trusted: TLC, Layer-0 oracle, Timbuk parser for read-back. For RemoveUnreachableStates only language preservation is demanded.", "DESIGN.md §4 C08"),
    "C13": ("exploration", "TLC-enumerated descriptions x surface variants and token-level / truncation mutants (Timbuk.tla) plus seeded byte mutants, run through the parser and the four loaders; outcomes judged by TLC (TraceTimbuk)",
            "Round trip and 'structured malformed input only throws' are decided on spec-generated input: TLC enumerates descriptions over pools of awkward legal names, "
            "serialises them in 4 surface variants and enumerates every token mutation / truncation of base texts; the driver parses, loads into all 4 encodings and does "
            "dump-load-dump; TLC checks the round-trip equalities and that every outcome is success or a std::exception (crash / hang / foreign exception = violation). "
            "'Every byte string' can only be sampled, hence level exploration.",
            "No sanitizer in this family: memory corruption that neither crashes nor changes a result is not observed.", "DESIGN.md §4 C13, §6"),
    "C19": (MC, "corpus and large random automata run through all selections on a presentation and its twin, plus derived-automaton laws; recorded verdict vectors judged by TLC (TraceLaws) against laws that are theorems of TA.tla",
            "No oracle exists for corpus-size inputs, so consequences of the contracts are checked: all selections and both presentations give one verdict, emptiness, "
            "simulation (as renamed image) and result sizes are invariant, and A<=A, A<=AuB, AnB<=A, transitivity and A==Reduce/Trim/Reindex/Load(Dump)(A) hold for the "
            "recorded verdicts; every call runs under its own time limit (time-out = no verdict).",
            "Agreement is not correctness: a defect common to all selections is invisible here (it is C01's job on small inputs). Evidence states how many verdicts were obtained.", "DESIGN.md §4 C19"),
}

NOT_APPLICABLE = {
    "C20": "memory safety / undefined behaviour of arbitrary C++ executions is not expressible in a TLA+ model nor observable by trace validation of abstract values; "
           "it needs sanitizers/valgrind (a different technique). The lifetime protocols it rests on are covered by C11, C18 and the AddrCache model.",
}

PENDING = "check not built yet in this round (planned, see DESIGN.md §4)"


def main():
    props = [json.loads(l) for l in open(os.path.join(VERIF, "properties.jsonl"))]
    checks = []
    na = []
    for p in props:
        pid = p["id"]
        if pid in CLAIMS:
            cat, tech, text, note, ref = CLAIMS[pid]
            checks.append({
                "property_id": pid,
                "quick_cmd": "bin/check %s quick" % pid,
                "thorough_cmd": "bin/check %s thorough" % pid,
                "evidence_file": "/verif/evidence/%s.json" % pid,
                "replay_cmd_template": "bin/check %s --replay {path}" % pid,
                "engine": "tlc+vdrive",
                "level_claimed": {"category": cat, "text": text, "design_ref": ref},
                "level_note": note,
                "technique": tech,
            })
        else:
            na.append({"property_id": pid, "reason": NOT_APPLICABLE.get(pid, PENDING)})
    hooks_commits = []
    hc = os.path.join(VERIF, "hooks_commits.txt")
    if os.path.exists(hc):
        hooks_commits = [l.split()[0] for l in open(hc) if l.strip()]
    man = {
        "version": 1,
        "setup_cmd": "bin/build.sh --setup",
        "hooks": {
            "guard": "VATA_VERIF",
            "enable": "bin/build.sh configures an out-of-tree build of /repo's working tree in /verif/out/build with -DCMAKE_CXX_FLAGS='-Wno-error -DVATA_VERIF'",
            "baseline_off_cmd": "cmake --build /repo/_build -j16 && ctest --test-dir /repo/_build -j8 --timeout 900",
            "source_commits": hooks_commits,
            "add_only": True,
        },
        "engines": [
            {"name": "tlc+vdrive", "path": "/verif/bin/check",
             "serves_properties": [c["property_id"] for c in checks],
             "kind_free_text": "TLA+ specifications in /verif/spec checked with TLC (case generation, Layer-2 model checking, trace validation) "
                               "bound to libvata by the C++ driver /verif/harness (vdrive) built against /repo's working tree"},
        ],
        "checks": checks,
        "not_applicable": na,
        "notes": "exit 0 held / 1 VIOLATION / 2 machinery broken. known_findings.json lists genuine defects (fixed: with commit, known: still open).",
    }
    with open(os.path.join(VERIF, "MANIFEST.json"), "w") as f:
        json.dump(man, f, indent=1)
        f.write("\n")


if __name__ == "__main__":
    main()
