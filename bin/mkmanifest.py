#!/usr/bin/env python3
# Regenerates /verif/MANIFEST.json from the table below (single source of truth for what is claimed).
import json
import os

VERIF = os.path.dirname(os.path.dirname(os.path.abspath(__file__)))

MC = "model_checking"
CLAIMS = {
    # id: (category, technique, text, note, design_ref)
    "C01": (MC, "TLC-enumerated cases replayed on libvata + TLA+ trace validation against TA!Incl; TLC model check of the antichain algorithms over all schedules",
            "Every pair of tree automata of the exhaustive small bounds (TLC-enumerated) and seeded random pairs are run through all 8 selections of the real "
            "CheckInclusion under varying presentations; TLC judges every recorded verdict against the bottom-up macro-state fixpoint of spec/TA.tla. "
            "The Layer-2 models of the upward and downward antichain algorithms are model-checked for every work-list order on the same bound.",
            "Trusted: TLC, the Layer-0 oracle (cross-checked in TLC against bounded tree enumeration), the driver's read-back through the public API. "
            "Exhaustive only within the stated bounds; sampled beyond.", "DESIGN.md §4 C01"),
}

NOT_APPLICABLE = {
    "C20": "memory safety / undefined behaviour of arbitrary C++ executions is not expressible in a TLA+ model nor observable by trace validation of abstract values; "
           "it needs sanitizers/valgrind (a different technique). The lifetime protocols it rests on are covered by C11, C18 and the AddrCache model.",
}

PENDING = "check not built yet in this round (planned, see DESIGN.md §4)"


def main():
    props = [json.loads(l) for l in open(os.path.join(VERIF, "properties.jsonl"))]
    checks = []
    na = []
    for p in props:
        pid = p["id"]
        if pid in CLAIMS:
            cat, tech, text, note, ref = CLAIMS[pid]
            checks.append({
                "property_id": pid,
                "quick_cmd": "bin/check %s quick" % pid,
                "thorough_cmd": "bin/check %s thorough" % pid,
                "evidence_file": "/verif/evidence/%s.json" % pid,
                "replay_cmd_template": "bin/check %s --replay {path}" % pid,
                "engine": "tlc+vdrive",
                "level_claimed": {"category": cat, "text": text, "design_ref": ref},
                "level_note": note,
                "technique": tech,
            })
        else:
            na.append({"property_id": pid, "reason": NOT_APPLICABLE.get(pid, PENDING)})
    hooks_commits = []
    hc = os.path.join(VERIF, "hooks_commits.txt")
    if os.path.exists(hc):
        hooks_commits = [l.split()[0] for l in open(hc) if l.strip()]
    man = {
        "version": 1,
        "setup_cmd": "bin/build.sh --setup",
        "hooks": {
            "guard": "VATA_VERIF",
            "enable": "bin/build.sh configures an out-of-tree build of /repo's working tree in /verif/out/build with -DCMAKE_CXX_FLAGS='-Wno-error -DVATA_VERIF'",
            "baseline_off_cmd": "cmake --build /repo/_build -j16 && ctest --test-dir /repo/_build -j8 --timeout 900",
            "source_commits": hooks_commits,
            "add_only": True,
        },
        "engines": [
            {"name": "tlc+vdrive", "path": "/verif/bin/check",
             "serves_properties": [c["property_id"] for c in checks],
             "kind_free_text": "TLA+ specifications in /verif/spec checked with TLC (case generation, Layer-2 model checking, trace validation) "
                               "bound to libvata by the C++ driver /verif/harness (vdrive) built against /repo's working tree"},
        ],
        "checks": checks,
        "not_applicable": na,
        "notes": "exit 0 held / 1 VIOLATION / 2 machinery broken. known_findings.json lists genuine defects (fixed: with commit, known: still open).",
    }
    with open(os.path.join(VERIF, "MANIFEST.json"), "w") as f:
        json.dump(man, f, indent=1)
        f.write("\n")


if __name__ == "__main__":
    main()
