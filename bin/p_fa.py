# Checks for finite (word) automata: C09 (inclusion), C10 (union / intersection / reverse / trimming / witness).
import json
import os
import random

import gen
import vlib
from p_ta import run_events, do_replay, load_killers

FA_DEPS = ["FA.tla", "GenFA.tla"]


def enum_nfa(mode, nq, maxe, nqb=None, maxeb=None, sigma=2, sample=None, rng=None, shards=16):
    envs = []
    for s in range(shards):
        e = {"GEN_MODE": mode, "GEN_NQ": str(nq), "GEN_MAXR": str(maxe), "GEN_SIGMA": str(sigma),
             "GEN_SHARD": str(s), "GEN_NSHARDS": str(shards)}
        if nqb is not None:
            e["GEN_NQB"] = str(nqb)
            e["GEN_MAXRB"] = str(maxeb)
        envs.append(e)
    tag = "nfa-%s-%d-%d-%s-%s-%d" % (mode, nq, maxe, nqb, maxeb, sigma)
    files = vlib.tlc_generate("GenFA.tla", envs, FA_DEPS, tag)
    out = []
    for f in files:
        with open(f) as fh:
            for line in fh:
                if sample is not None and rng.random() >= sample:
                    continue
                c = json.loads(line)
                c["src"] = tag
                out.append(c)
    return out


def present_nfa_pair(c, rng, disjoint=False):
    na = rng.choice(["id", "rev", "sparse"])
    nb = "shift" if disjoint else rng.choice(["id", "rev", "sparse", "shift", "shift"])
    d = dict(c)
    d["A"] = gen.nfa_present(c["A"], rng, na)
    d["B"] = gen.nfa_present(c["B"], rng, nb)
    d["pres"] = [na, nb]
    return d


def nt_pair(c):
    return gen.nfa_nonempty(c["A"]) and gen.nfa_nonempty(c["B"]) and len(c["A"]["delta"]) > 0


# ---------------------------------------------------------------------------------------- C09
def bind_steps(res, rd, rng, pool, n, model, op, module, cfg, name, fold_adds=False):
    import p_hist
    rng.shuffle(pool)
    sample = [{"id": c["id"], "op": op, "sel": c["sel"], "A": c["A"], "B": c["B"]} for c in pool[:n]]
    cf = os.path.join(rd, name + ".cases.ndjson")
    vlib.write_ndjson(cf, sample)
    items = []
    for sh in vlib.drive(cf, os.path.join(rd, name + ".ev"), timeout_ms=3000):
        for ev in vlib.read_ndjson(sh):
            if ev.get("outcome") == "ok" and ev["res"]["events"] and ev["res"]["events"][0].get("e") == "Start":
                evs = ev["res"]["events"]
                if fold_adds:       # an Add event belongs to the Step before it
                    out = []
                    for e in evs:
                        if e["e"] == "Add":
                            out[-1]["adds"].append({"X": e["X"], "Y": e["Y"]})
                        else:
                            out.append(dict(e, adds=[]) if e["e"] == "Step" else e)
                    evs = out
                items.append(({"id": ev.get("id"), "kind": name, "A": ev["A"], "B": ev["B"]}, evs))
    mb = res.extra.setdefault("model_binding", {})
    if items:
        vb = p_hist.tlc_validate_seq(module, cfg, items, rd, name, emit_reset=False)
        res.add_validation(vb)
        mb[model] = {"executions": len(items), "step_events_accepted": vb["events"], "diverged": len(vb["fails"]),
                     "first_divergence": ({"case": vb["fails"][0][0], "at_event": vb["fails"][0][2]} if vb["fails"] else None)}
        if vb["fails"]:
            print("MODEL-BINDING-DIVERGED model=%s executions=%d diverged>=%d (evidence only, not a violation)" % (model, len(items), len(vb["fails"])))
    else:
        mb[model] = "no step events recorded (hook absent?)"


def check_C09(tier, seed, res, replay=None):
    rd = vlib.rundir("C09", tier)
    res.rule = ("pairs of NFAs of the TLC-enumerated bound (<=2 states, <=2 edges over {a,b}, every start/final set; sampled in quick), killer inputs from the "
                "FAAntichain model, and seeded random NFA pairs (<=4 states, <=7 edges, <=3 letters), each under a random presentation (numbering incl. overlapping "
                "operands, edge order) and heap perturbation; one event per selection (antichains, congruence depth, congruence breadth) under a per-case watchdog; "
                "non-trivial = both languages non-empty and A has an edge")
    res.assumptions = ["a hang (watchdog) or crash of CheckInclusion on an NFA pair is a violation: the property demands a verdict"]
    if replay:
        return do_replay(res, rd, replay, "TraceFA.tla")
    rng = random.Random(seed)
    base = []
    frac = 1.0 if tier == "thorough" else 0.06
    for c in enum_nfa("pair", 2, 2, 2, 2, sample=frac, rng=rng):
        base.append(present_nfa_pair(c, rng))
    for k in load_killers("faincl.ndjson"):
        for _ in range(3):
            base.append(present_nfa_pair(k, rng))
    for i in range(30000 if tier == "thorough" else 5000):
        A, sigma = gen.rand_nfa(rng)
        B, _ = gen.rand_nfa(rng, sigma=sigma)
        base.append(present_nfa_pair({"id": ["r", i], "A": A, "B": B, "src": "random"}, rng))
    # the HUB family: one state with k distinct outgoing symbols (k swept across size thresholds) against one with few
    for k in (gen.HUB_THOROUGH if tier == "thorough" else gen.HUB_QUICK):
        for j in range(4):
            A, B, _ = gen.hub_nfa_pair(rng, k)
            base.append(present_nfa_pair({"id": ["hub", k, j], "A": A, "B": B, "src": "hub"}, rng))
    cases = []
    for c in base:
        r = rng.random()
        if r < 0.04:
            alias_b(c, rng)
        elif r < 0.12:
            extend_b(c, rng)
        if rng.random() < 0.1:
            c["amode"] = "copy"
        p = rng.choice([0, 0, 1, 3, 7])
        for sel in ("anti", "cd", "cb"):
            cases.append(dict(c, op="faincl", sel=sel, perturb=p))
    res.count_cases(cases, nt_pair)
    res.add_samples([c for c in cases if nt_pair(c)][:3])
    run_events(res, rd, "c09", cases, "TraceFA.tla", timeout_ms=2000)
    import cli_arm
    pick = [c for c in cases if nt_pair(c)]
    rng.shuffle(pick)
    cli_arm.judge(res, rd, "faincl", cli_arm.faincl_events(pick[:9000 if tier == "thorough" else 1800], rd), "TraceFA.tla")
    # agreement arm: many more random pairs generated in the driver; disagreements between the 3 selections judged by TLC
    nb, per = (800, 20000) if tier == "thorough" else (64, 10000)
    batches = [{"id": ["faagree", i], "op": "faagree", "seed": seed * 6151 + i, "count": per, "tmo": 240000} for i in range(nb)]
    cf = os.path.join(rd, "agree.cases.ndjson")
    vlib.write_ndjson(cf, batches)
    events, pairs, noninc = [], 0, 0
    for sh in vlib.drive(cf, os.path.join(rd, "agree.ev"), timeout_ms=240000):
        for ev in vlib.read_ndjson(sh):
            if ev.get("outcome") != "ok":
                # hang / crash inside a batch: reported with the batch as (deterministic) replay
                events.append(dict(ev, op="faincl", sel="batch", A={"start": [], "fin": [], "delta": []}, B={"start": [], "fin": [], "delta": []}))
                continue
            pairs += ev["res"]["count"]
            noninc += ev["res"]["nonincluded"]
            events += ev["res"]["disagree"]
    res.extra["agreement_arm_pairs"] = pairs
    res.extra["agreement_arm_nonincluded_pairs"] = noninc
    res.extra["agreement_arm_disagreement_events"] = len(events)
    if events:
        ef = os.path.join(rd, "agree.disagree.0.ndjson")
        vlib.write_ndjson(ef, events)
        v = vlib.tlc_validate("TraceFA.tla", [ef])
        res.add_validation(v)
        res.report_fails(v["fails"], os.path.join(vlib.OUT, "viol"))
    # step-level binding of the Layer-2 models: recorded executions of the real algorithms must be behaviours of
    # FAAntichain / FACongr (evidence only: a divergence is reported as MODEL-BINDING-DIVERGED, never as a violation)
    nbind = 12000 if tier == "thorough" else 2500
    bind_steps(res, rd, rng, [c for c in cases if c["sel"] == "anti" and nt_pair(c) and c.get("src") != "hub"][:], nbind, "FAAntichain", "faantitrace", "TraceFAAnti.tla", "TraceFAAnti.cfg", "bind")
    for sel, order in (("cd", "depth"), ("cb", "breadth")):
        bind_steps(res, rd, rng, [c for c in cases if c["sel"] == sel and nt_pair(c) and c.get("src") != "hub"], nbind // 2, "FACongr-" + order, "facongrtrace",
                   "TraceFACongr.tla", "TraceFACongr_%s.cfg" % order, "bind" + sel, fold_adds=True)
    # Layer 0 self-check and Layer 2 model (safety + liveness over every pick order)
    shards = list(range(64)) if tier == "thorough" else [(seed * 5 + i * 4) % 64 for i in range(16)]
    m = vlib.tlc_sharded_check("FAcheck.tla", "FAcheck.cfg", 64, sorted(set(shards)))
    res.add_model(m)
    if not m["ok"]:
        raise vlib.Broken("the Layer-0 oracle FA.tla fails its self-check (%s)" % m["log"])
    from p_ta import model_with_mutants
    model_with_mutants(res, "FAAntichain.tla", "FAAntichain4.cfg" if tier == "thorough" else "FAAntichain.cfg",
                       ["MemoConverse", "MemoConverseLive"] if tier == "thorough" else [], "FAAntichain", timeout=3000)
    # the congruence algorithm as written, both search orders (and, in thorough, the idealised design without the
    # empty-set cache quirk): safety + termination over every symbol order
    model_with_mutants(res, "FACongr.tla", "FACongr3.cfg" if tier == "thorough" else "FACongr.cfg",
                       ["MemoBySetOnly", "KeepPopped", "InitNoFinalCheck", "DropHalfEmpty"] if tier == "thorough" else [], "FACongr", timeout=3000)
    res.add_model(vlib.tlc_model("FACongr.tla", "FACongrB3.cfg" if tier == "thorough" else "FACongrB.cfg", timeout=3000, heap="16g"))
    if tier == "thorough":
        res.add_model(vlib.tlc_model("FACongr.tla", "FACongrIdeal.cfg", timeout=3000, heap="16g"))


# ---------------------------------------------------------------------------------------- C10
PRE = ["none", "none", "reverse", "unreach", "useless", "witness", "copy"]


def with_pre(d, rng):
    """results of operations are operands too: put one or both operands through another operation first"""
    if rng.random() < 0.5:
        d["preA"] = rng.choice(PRE)
        d["preB"] = rng.choice(PRE)
    return d


def alias_b(d, rng):
    """the same object as both operands, or a copy sharing its storage (value: B = A); no pre-operations"""
    d["B"] = json.loads(json.dumps(d["A"]))
    d["bmode"] = rng.choice(["alias", "copy"])
    d.pop("preA", None)
    d.pop("preB", None)


def extend_b(d, rng):
    """B is a copy of A edited through the API: start / final states and edges ADDED (value: B contains A); no pre-operations"""
    A = d["A"]
    st = sorted(gen.nfa_states(A)) or [0]
    B = json.loads(json.dumps(A))
    sig = sorted(set(e[1] for e in A["delta"])) or ["a"]
    if rng.random() < 0.5:
        B["fin"] = sorted(set(B["fin"]) | {rng.choice(st)})
    if rng.random() < 0.4:
        B["start"] = sorted(set(B["start"]) | {rng.choice(st)})
    for _ in range(rng.choice([0, 0, 1, 1, 2])):
        e = [rng.choice(st), rng.choice(sig), rng.choice(st)]
        if e not in B["delta"]:
            B["delta"].append(e)
    d["B"] = B
    d["bmode"] = "extend"
    if rng.random() < 0.5:
        d["swap"] = True        # the edited copy is the first operand of the call
    d.pop("preA", None)
    d.pop("preB", None)


def c10_variants(c, rng):
    out = []
    for kind in ("union", "isect"):
        d = with_pre(dict(present_nfa_pair(c, rng), op="faop", kind=kind), rng)
        r = rng.random()
        if r < 0.06:
            alias_b(d, rng)
        elif r < 0.14:
            extend_b(d, rng)
        if kind == "isect" and rng.random() < 0.3:
            d["nomap"] = True
        if rng.random() < 0.12:
            d["amode"] = "copy"
        out.append(d)
    out.append(with_pre(dict(present_nfa_pair(c, rng, disjoint=True), op="faop", kind="uniondisj"), rng))
    for kind, src in (("reverse", "A"), ("unreach", "B"), ("useless", "A"), ("witness", "B")):
        d = {"id": c["id"], "src": c.get("src"), "op": "faop", "kind": kind,
             "A": gen.nfa_present(c[src], rng, rng.choice(["id", "rev", "sparse"]))}
        if rng.random() < 0.4:
            d["preA"] = rng.choice(PRE)
        if rng.random() < 0.12:
            d["amode"] = "copy"
        out.append(d)
    return out


def check_C10(tier, seed, res, replay=None):
    rd = vlib.rundir("C10", tier)
    res.rule = ("pairs of NFAs of the TLC-enumerated bound (sampled in quick) and seeded random NFAs; Union, UnionDisjointStates (disjoint numbering), Intersection on "
                "the pair; Reverse, RemoveUnreachableStates, RemoveUselessStates, GetCandidateTree on the components; results read back by DumpToString + parser; "
                "non-trivial = operand language(s) non-empty")
    res.assumptions = ["a crash while dumping a result counts as failure of the operation that produced it",
                       "start symbols are not part of the abstract value (DumpToString prints one per start state)"]
    if replay:
        return do_replay(res, rd, replay, "TraceFA.tla")
    rng = random.Random(seed)
    cases = []
    frac = 1.0 if tier == "thorough" else 0.02
    for c in enum_nfa("pair", 2, 2, 2, 2, sample=frac, rng=rng):
        cases += c10_variants(c, rng)
    for i in range(12000 if tier == "thorough" else 2500):
        A, sigma = gen.rand_nfa(rng)
        B, _ = gen.rand_nfa(rng, sigma=sigma)
        cases += c10_variants({"id": ["r", i], "A": A, "B": B, "src": "random"}, rng)
    for k in vlib.read_ndjson(os.path.join(vlib.SPEC, "killers", "faops.ndjson")):
        cases.append(dict(k, op="faop"))
    # the HUB family: one state with k distinct outgoing symbols (k swept across size thresholds) against one with few
    for k in (gen.HUB_THOROUGH if tier == "thorough" else gen.HUB_QUICK):
        for j in range(6):
            A, B, _ = gen.hub_nfa_pair(rng, k)
            cases += [dict(d, src="hub") for d in c10_variants({"id": ["hub", k, j], "A": A, "B": B, "src": "hub"}, rng)]
    nt = lambda c: gen.nfa_nonempty(c["A"]) and ("B" not in c or gen.nfa_nonempty(c["B"]))
    res.count_cases(cases, nt)
    res.add_samples([c for c in cases if nt(c)][:3])
    run_events(res, rd, "c10", cases, "TraceFA.tla", timeout_ms=3000)
    import cli_arm
    cmdof = {"union": "union", "isect": "isect", "witness": "witness", "unreach": "load-p", "useless": "load-s"}
    pick = [c for c in cases if c["kind"] in cmdof and "preA" not in c and "preB" not in c and nt(c)]
    rng.shuffle(pick)
    cli_cases = [dict({"id": c["id"], "cmd": cmdof[c["kind"]], "A": c["A"]}, **({"B": c["B"]} if "B" in c else {})) for c in pick[:8000 if tier == "thorough" else 1500]]
    cli_arm.judge(res, rd, "c10", cli_arm.fa_op_events(cli_cases, rd), "TraceFA.tla")
    # step-level binding of the Layer-2 model FAOps (hooks: Start / Pop in Intersection, RemoveUnreachableStates, GetCandidateTree)
    from p_ta import bind_model, model_with_mutants
    pool = [c for c in cases if c["kind"] in ("isect", "unreach", "witness") and not any(k in c for k in ("preA", "preB", "bmode", "swap", "nomap", "amode"))]
    rng.shuffle(pool)
    sample = [dict({"id": c["id"], "op": "faoptrace", "kind": c["kind"], "A": c["A"]}, **({"B": c["B"]} if c["kind"] == "isect" else {}))
              for c in pool[:12000 if tier == "thorough" else 3000]]
    bind_model(res, rd, "bind", "FAOps", sample, "TraceFAOps.tla", "TraceFAOps.cfg", keep=("A", "B", "kind"))
    # Layer 2: the constructions as work-list machines, every automaton (pair) of the bound, every pop order
    model_with_mutants(res, "FAOps.tla", "FAOps.cfg", ["NoFinalStart", "KeepStartFinal", "ReachFromFinal"] if tier == "thorough" else [], "FAOps")
    model_with_mutants(res, "FAOps.tla", "FAOps_isect.cfg" if tier == "thorough" else "FAOps_isect_q.cfg",
                       ["StartEither", "FinalEither", "SymbolOfLeft"] if tier == "thorough" else [], "FAOps")
