# BDD-encoded tree automata: C07 (inclusion), C08 (load / union / intersection / trimming / BU->TD; histories).
import json
import os
import random

import gen
import vlib
from p_ta import enum_cases, run_events, do_replay, load_killers, nontrivial_pair
from p_hist import tlc_validate_seq

NH = 4


def check_C07(tier, seed, res, replay=None):
    rd = vlib.rundir("C07", tier)
    res.rule = ("pairs of tree automata of the TLC-enumerated bound B1 (sampled in quick), killer inputs (a state reached by two different trees and used twice in one "
                "rule), and seeded random pairs (<=4 states, <=7 rules), rendered as Timbuk text and loaded into both BDD encodings; selections: BU upward, BU "
                "downward+simulation, TD downward recursive with/without implication cache, with/without simulation (relation computed as bdd_bu_tree_aut_incl.cc "
                "does), plus probes of 4 unimplemented selections; non-trivial = both languages non-empty and A has a non-leaf rule")
    res.assumptions = ["NotImplementedException is not a verdict", "state names q<N> are mapped to the number N by the loading translator"]
    if replay:
        return do_replay(res, rd, replay)
    rng = random.Random(seed)
    cases = []
    frac = 1.0 if tier == "thorough" else 0.05
    for c in enum_cases("pair", "abgf", 2, 2, 2, 2, sample=frac, rng=rng):
        cases.append(gen.present_pair(dict(c, op="bddincl"), rng))
    for c in enum_cases("pair", "abf", 2, 3, 2, 3, sample=(0.2 if tier == "thorough" else 0.005), rng=rng):
        cases.append(gen.present_pair(dict(c, op="bddincl"), rng))
    for k in load_killers("incl.ndjson"):
        for _ in range(4):
            cases.append(gen.present_pair(dict(k, op="bddincl"), rng))
    for i in range(12000 if tier == "thorough" else 2500):
        A, alpha = gen.rand_ta(rng)
        B, _ = gen.rand_ta(rng, alpha=alpha)
        cases.append(gen.present_pair({"id": ["r", i], "op": "bddincl", "A": A, "B": B, "src": "random"}, rng))
    res.count_cases(cases, nontrivial_pair)
    res.add_samples([c for c in cases if nontrivial_pair(c)][:3])
    run_events(res, rd, "c07", cases, timeout_ms=10000)
    import cli_arm
    pick = [c for c in cases if nontrivial_pair(c)]
    rng.shuffle(pick)
    cli_arm.judge(res, rd, "c07", cli_arm.bddincl_events(pick[:4000 if tier == "thorough" else 800], rd), "TraceTA.tla")
    # agreement arm: driver-generated pairs (half of them nearly included), every implemented BDD selection incl. the attached-
    # simulation recipe; pairs whose verdicts differ are re-run as ordinary bddincl cases and judged by TLC
    nb, per = (640, 5000) if tier == "thorough" else (48, 4000)
    batches = [{"id": ["bddinclagree", i], "op": "bddinclagree", "seed": seed * 6271 + i, "count": per, "tmo": 900000} for i in range(nb)]
    cf = os.path.join(rd, "agree.cases.ndjson")
    vlib.write_ndjson(cf, batches)
    again, broken, pairs, noninc = [], [], 0, 0
    for sh in vlib.drive(cf, os.path.join(rd, "agree.ev"), timeout_ms=900000):
        for ev in vlib.read_ndjson(sh):
            if ev.get("outcome") != "ok":       # a crash / hang inside a batch is reported as it is (TraceTA: outcome # ok)
                broken.append(dict(ev, op="bddincl", A={"fin": [], "rules": []}, B={"fin": [], "rules": []}))
                continue
            pairs += ev["res"]["count"]
            noninc += ev["res"]["nonincluded"]
            again += ev["res"]["disagree"]
    res.extra["agreement_arm_pairs"] = pairs
    res.extra["agreement_arm_nonincluded_pairs"] = noninc
    res.extra["agreement_arm_disagreeing_pairs"] = len(again)
    if again:
        run_events(res, rd, "agree2", again[:200], timeout_ms=10000)
    if broken:
        bf = os.path.join(rd, "agree.broken.0.ndjson")
        vlib.write_ndjson(bf, broken)
        vb = vlib.tlc_validate("TraceTA.tla", [bf])
        res.add_validation(vb)
        res.report_fails(vb["fails"], os.path.join(vlib.OUT, "viol"))
    # Layer 2: the upward antichain inclusion of the BDD bottom-up encoding as written after the repair of D9 (two antichains,
    # per-position candidate macro-states copied before a rule is expanded), every pair of the bound, every schedule
    from p_ta import model_with_mutants
    model_with_mutants(res, "InclUpBdd.tla", "InclUpBdd.cfg", [], "InclUpBdd")
    if tier == "thorough":
        model_with_mutants(res, "InclUpBdd.tla", "InclUpBddLeaf3.cfg", ["UnionChildren", "RevSubsume", "NoFinalCheck"], "InclUpBdd")
        model_with_mutants(res, "InclUpBdd.tla", "InclUpBdd3.cfg", [], "InclUpBdd")


# ------------------------------------------------------------------------------------- C08
def small_ta(rng, slot=0):
    A, _ = gen.rand_ta(rng, nq=rng.choice([1, 2, 2, 3]), nrules=rng.choice([1, 2, 3, 4, 5]),
                       alpha=[["a", 0], ["b", 0], ["g", 1], ["f", 2]])
    # automata loaded into different slots mostly use disjoint state ranges (UnionDisjointStates needs that); sometimes they overlap (Union)
    base = 10 * slot if rng.random() < 0.75 else 0
    return gen.rename(A, {q: q + base for q in range(4)})


def gen_bdd_history(rng, nsteps, enc):
    live, tlive = {}, set()
    fam = {}            # handle -> family id: handles of one family may share a transition table (copies, results built on an operand)
    nfam = [0]
    sts = {}            # handle -> set of state numbers if known (loaded automata and their copies / disjoint unions)
    steps = []
    for _ in range(nsteps):
        dead = [h for h in range(NH) if h not in live]
        r = rng.random()
        if not live or (dead and r < 0.25):
            h = rng.choice(dead)
            a = small_ta(rng, h)
            steps.append(["load", h, a])
            live[h] = len(a["rules"])
            sts[h] = gen.states_of(a)
            nfam[0] += 1
            fam[h] = nfam[0]
            continue
        hs = sorted(live)
        h = rng.choice(hs)
        if r < 0.33 and dead:
            d = rng.choice(dead)
            steps.append(["copy", d, h])
            live[d] = live[h]
            sts[d] = sts.get(h)
            fam[d] = fam.get(h)
        elif r < 0.40:
            g = rng.choice(hs)
            steps.append(["assign", h, g])
            live[h] = live[g]
            sts[h] = sts.get(g)
            fam[h] = fam.get(g)
        elif r < 0.47:
            steps.append(["destroy", h])
            del live[h]
        elif r < 0.52 and sts.get(h):
            steps.append(["final", h, rng.choice(sorted(sts[h]))])
        elif r < 0.55 and tlive:
            t = rng.choice(sorted(tlive))
            steps.append(["tdestroy", t])
            tlive.discard(t)
        elif dead and live[h] <= 8:
            d = rng.choice(dead)
            kind = rng.choice(["union", "union", "uniondisj", "uniondisj", "isect", "isect", "unreach", "useless", "useless"] + (["totd"] if enc == "bu" else []))
            if kind == "totd":
                free = [t for t in range(NH) if t not in tlive]
                if free:
                    t = rng.choice(free)
                    steps.append(["totd", t, h])
                    tlive.add(t)
                continue
            if kind in ("union", "uniondisj", "isect"):
                g = rng.choice(hs)
                kin = [x for x in hs if x != h and fam.get(x) == fam.get(h)]
                if kin and rng.random() < 0.5:
                    g = rng.choice(kin)            # operands that may share one transition table
                if live[g] > 8:
                    continue
                if kind == "uniondisj":
                    # UnionDisjointStates is specified for operands with disjoint state sets only
                    if sts.get(h) is None or sts.get(g) is None or (sts[h] & sts[g]):
                        continue
                    sts[d] = sts[h] | sts[g]
                else:
                    sts[d] = None
                steps.append([kind, d, h, g] + ([True] if kind in ("union", "isect") and rng.random() < 0.3 else []))   # True: with the optional out-maps
                fam[d] = fam.get(h)
                live[d] = live[h] + live[g] if kind != "isect" else live[h] * live[g]
            else:
                steps.append([kind, d, h] + ([True] if kind == "unreach" and rng.random() < 0.4 else []))   # True: with the optional out-set
                live[d] = live[h]
                sts[d] = None
                fam[d] = fam.get(h)
    return {"op": "bddhist", "enc": enc, "kind": "bdd", "steps": steps}


def sharing_scenario(rng, enc):
    """scripted openings that make operands share ONE transition table while differing in final states / nullary rules,
    followed by a random continuation (the property's 'automata that may share one transition table')"""
    A = small_ta(rng, 0)
    sa = sorted(gen.states_of(A))
    kind = rng.randrange(4)
    if kind == 3:
        # accumulate a union by assigning each result back into the accumulator (the result shares the accumulator's table but
        # differs in nullary rules / final states)
        B, C = small_ta(rng, 1), small_ta(rng, 2)
        if (gen.states_of(A) & gen.states_of(B)) or (gen.states_of(A) & gen.states_of(C)) or (gen.states_of(B) & gen.states_of(C)):
            B = gen.rename(B, {q: q + 100 for q in range(40)})
            C = gen.rename(C, {q: q + 200 for q in range(40)})
        op1, op2 = rng.choice(["uniondisj", "union"]), rng.choice(["uniondisj", "union", "isect"])
        if op1 == "union":
            op2 = rng.choice(["union", "isect"])          # after a renumbering Union the state sets are no longer known to be disjoint
        steps = [["load", 0, A], ["load", 1, B], [op1, 2, 0, 1], ["assign", 0, 2], ["destroy", 1], ["load", 1, C], [op2, 3, 0, 1],
                 ["assign", 0, 3], [rng.choice(["useless", "unreach"]), 1 if False else 2, 0] if False else ["destroy", 2]]
        steps += [[rng.choice(["useless", "unreach"]), 2, 0]]
    elif kind == 0 or len(sa) < 2:
        # copies of one automaton with different final states
        steps = [["load", 0, A], ["copy", 1, 0], ["final", 0, rng.choice(sa)], ["final", 1, rng.choice(sa)],
                 [rng.choice(["isect", "union"]), 2, 0, 1], ["copy", 3, 1], ["final", 3, rng.choice(sa)], [rng.choice(["isect", "union"]), 2 if False else 0, 3, 1]]
        steps = steps[:5] + [["destroy", 2]] + [["copy", 3, 1], ["final", 3, rng.choice(sa)], [rng.choice(["isect", "union"]), 2, 3, 0]]
    elif kind == 1:
        # two results built on the same left operand
        B, C = small_ta(rng, 1), small_ta(rng, 2)
        if (gen.states_of(A) & gen.states_of(B)) or (gen.states_of(A) & gen.states_of(C)):
            B = gen.rename(B, {q: q + 100 for q in range(40)})
            C = gen.rename(C, {q: q + 200 for q in range(40)})
        steps = [["load", 0, A], ["load", 1, B], ["uniondisj", 2, 0, 1], ["destroy", 1], ["load", 1, C], ["uniondisj", 3, 0, 1],
                 ["destroy", 1], [rng.choice(["isect", "union"]), 1, 2, 3]]
    else:
        B = small_ta(rng, 1)
        if gen.states_of(A) & gen.states_of(B):
            B = gen.rename(B, {q: q + 100 for q in range(40)})
        steps = [["load", 0, A], ["load", 1, B], ["uniondisj", 2, 0, 1], [rng.choice(["union", "isect"]), 3, 0, 2], ["destroy", 1],
                 [rng.choice(["union", "isect"]), 1, 2, 3]]
    return {"op": "bddhist", "enc": enc, "kind": "bdd", "steps": steps}


def manysyms_scenario(rng, enc):
    """automata over MANY distinct symbol names (beyond 8 bits' worth): the symbol codes of the BDD encodings are handed out by a
    counter in a process-wide alphabet; two names whose numbers differ by a multiple of 256 lead to different states here"""
    k = rng.choice([130, 260, 300, 520, 700])
    def aut(shift, top):
        rules = [["n%d" % i, [], shift + ((i // 256) % 2)] for i in range(k) if rng.random() < 0.9]
        if top == "g":
            rules.append(["g", [shift], shift + 2])
        else:
            rules.append(["f", [shift, shift + 1], shift + 2])
            rules.append(["g", [shift + 1], shift + 2])
        rng.shuffle(rules)
        return {"fin": [shift + 2], "rules": rules}
    A, B = aut(0, "g"), aut(10, rng.choice(["g", "f"]))
    steps = [["load", 0, A], ["load", 1, B], [rng.choice(["union", "uniondisj"]), 2, 0, 1], ["isect", 3, 0, 1], ["destroy", 3],
             [rng.choice(["useless", "unreach"]), 3, 2]]
    if enc == "bu":
        steps.append(["totd", 0, 2])
    return {"op": "bddhist", "enc": enc, "kind": "bdd", "steps": steps}


def nt_bdd(c):
    shared = False
    for s in c["steps"]:
        if s[0] in ("copy", "assign"):
            shared = True
        elif shared and s[0] in ("union", "uniondisj", "isect", "unreach", "useless", "totd", "destroy"):
            return True
    return False


def run_bdd_hist(res, rd, name, cases):
    cf = os.path.join(rd, name + ".cases.ndjson")
    vlib.write_ndjson(cf, cases)
    shards = vlib.drive(cf, os.path.join(rd, name + ".ev"), timeout_ms=20000)
    items = []
    for sh in shards:
        for ev in vlib.read_ndjson(sh):
            case = {k: ev[k] for k in ev if k not in ("res", "outcome", "what", "stage")}
            if ev.get("outcome") == "ok":
                items.append((case, ev["res"]["steps"]))
            else:
                items.append((case, [{"op": "Abort", "outcome": ev.get("outcome"), "stage": ev.get("stage", ""), "what": ev.get("what", "")}]))
    v = tlc_validate_seq("TraceBdd.tla", "TraceBdd.cfg", items, rd, name)
    res.add_validation(v)
    fails = []
    for case, pos, ev in v["fails"]:
        reasons = ["rejected-at:" + str(ev.get("op"))]
        if ev.get("op") == "Abort":
            reasons = ["outcome:" + str(ev.get("outcome"))]
        e2 = dict(case)
        e2["outcome"] = "ok"
        e2["stuck_step"] = pos
        e2["stuck_event"] = ev
        fails.append((None, 0, reasons, e2))
    res.report_fails(fails, os.path.join(vlib.OUT, "viol"))
    res.checker_cmds.append("vdrive run %s; TRACE=<shard> tlc -config TraceBdd.cfg TraceBdd.tla (POSTCONDITION TraceAccepted)" % os.path.basename(cf))
    if v["unvalidated_shards"] and not res.violations:
        raise vlib.Broken("too many rejected histories to finish validation")
    res.extra["shards_not_fully_validated_after_rejections"] = v["unvalidated_shards"]


def check_C08(tier, seed, res, replay=None):
    rd = vlib.rundir("C08", tier)
    res.rule = ("seeded random histories over 4 handles per BDD encoding (load from Timbuk text, copy, assign incl. self, destroy, Union, UnionDisjointStates, "
                "Intersection, RemoveUnreachableStates, RemoveUselessStates, GetTopDownAut) on automata with <=3 states / <=5 rules over a,b,g,f (overlapping and "
                "disjoint numbering); after every step every live automaton is dumped and parsed back; non-trivial = an operation or release after a copy/assign "
                "(handles share one transition table)")
    res.assumptions = ["for RemoveUnreachableStates only language preservation is demanded (the bottom-up encoding removes bottom-up unreachable states)",
                       "dumps of operands may show additional rules of a shared table as long as the language is unchanged"]
    if replay:
        cases = [{k: c[k] for k in c if k not in ("stuck_step", "stuck_event", "outcome")} for c in vlib.read_ndjson(replay)]
        res.count_cases(cases, lambda c: True)
        res.add_samples(cases)
        res.rule = "replay of " + replay
        return run_bdd_hist(res, rd, "replay", cases)
    rng = random.Random(seed)
    n, steps = (12000, 30) if tier == "thorough" else (2400, 20)
    cases = []
    for i in range(n):
        enc = "bu" if i % 2 == 0 else "td"
        c = sharing_scenario(rng, enc) if i % 4 >= 2 else gen_bdd_history(rng, rng.randint(steps // 2, steps), enc)
        if i % 100 >= 98:
            c = manysyms_scenario(rng, enc)
        c["id"] = ["c08", i]
        cases.append(c)
    # agreement arm: each BDD operation against the same operation in the explicit encoding (library's own inclusion);
    # disagreeing pairs come back as 3-step histories and are judged by TLC like all others
    nb, per = (640, 3000) if tier == "thorough" else (64, 1500)
    batches = [{"id": ["bddagree", i], "op": "bddagree", "seed": seed * 4099 + i, "count": per, "tmo": 900000} for i in range(nb)]
    cf = os.path.join(rd, "agree.cases.ndjson")
    vlib.write_ndjson(cf, batches)
    pairs = 0
    for sh in vlib.drive(cf, os.path.join(rd, "agree.ev"), timeout_ms=900000):
        for ev in vlib.read_ndjson(sh):
            if ev.get("outcome") != "ok":
                cases.append({"op": "bddagree", "seed": ev.get("seed"), "count": ev.get("count"), "kind": "bdd", "id": ev.get("id"), "steps": [], "enc": "bu",
                              "_abort": ev.get("outcome")})
                continue
            pairs += ev["res"]["count"]
            for i, c in enumerate(ev["res"]["suspicious"]):
                c["id"] = ["bddagree", ev["seed"], i]
                cases.append(c)
    res.extra["agreement_arm_pairs"] = pairs
    res.count_cases(cases, nt_bdd)
    res.add_samples([{"enc": c["enc"], "steps": c["steps"][:8]} for c in cases if nt_bdd(c)][:3])
    run_bdd_hist(res, rd, "c08", [c for c in cases if c.get("op") == "bddhist"])
    # the same operations through the CLI (-r bdd-bu / bdd-td): result automata parsed from its output, language contracts judged by TLC
    import cli_arm
    cli_cases = []
    for i in range(4000 if tier == "thorough" else 800):
        A, B = small_ta(rng, 0), small_ta(rng, 1)
        cmd = rng.choice(["union", "isect", "isect", "load-p", "load-s"])
        cli_cases.append({"id": ["cli", i], "cmd": cmd, "A": A, "B": B})
    cli_arm.judge(res, rd, "c08bu", cli_arm.ta_op_events(cli_cases[::2], rd, "bdd-bu"), "TraceTA.tla")
    cli_arm.judge(res, rd, "c08td", cli_arm.ta_op_events(cli_cases[1::2], rd, "bdd-td"), "TraceTA.tla")
    aborted = [c for c in cases if c.get("_abort")]
    if aborted:
        res.report_fails([(None, 0, ["outcome:" + c["_abort"]], {"op": "bddagree", "seed": c["seed"], "count": c["count"], "outcome": c["_abort"]}) for c in aborted],
                         os.path.join(vlib.OUT, "viol"))
