# C19: invariance under renaming / reordering and the laws of inclusion, on the repository's corpus and on
# seeded random automata that are too large for the TLC oracle (agreement arm).
import glob
import os
import random

import gen
import vlib
from p_ta import run_events, do_replay

REPO = vlib.REPO


def is_timbuk(path):
    """corpus directories also hold expected-result files (relations, numbers): keep automaton descriptions only"""
    try:
        with open(path, errors="replace") as f:
            txt = f.read(200000)
    except OSError:
        return False
    return "\nTransitions" in ("\n" + txt) and "Automaton" in txt and "Ops" in txt


def corpus(tier):
    small, real, moderate, big = corpus_raw(tier)
    return [f for f in small if is_timbuk(f)], [f for f in real if is_timbuk(f)], [f for f in moderate if is_timbuk(f)], [f for f in big if is_timbuk(f)]


def corpus_raw(tier):
    small = sorted(glob.glob(os.path.join(REPO, "automata/small_timbuk/*")))
    real = sorted(glob.glob(os.path.join(REPO, "tests/aut_timbuk_smaller/*")))
    moderate = sorted(glob.glob(os.path.join(REPO, "automata/moderate_artmc_timbuk/*")))
    big = sorted(f for f in glob.glob(os.path.join(REPO, "automata/artmc_timbuk/*")) if os.path.getsize(f) < 60000)
    return small, real, moderate, big


def timbuk_text(a, name="R"):
    syms = gen.syms_of(a)
    st = sorted(gen.states_of(a))
    lines = ["Ops " + " ".join("%s:%d" % (s[0], s[1]) for s in syms), "", "Automaton " + name,
             "States " + " ".join("q%d" % q for q in st), "Final States " + " ".join("q%d" % q for q in a["fin"]), "Transitions"]
    for r in a["rules"]:
        lhs = r[0] if not r[1] else "%s(%s)" % (r[0], ",".join("q%d" % k for k in r[1]))
        lines.append("%s -> q%d" % (lhs, r[2]))
    return "\n".join(lines) + "\n"


def random_files(rng, rd, n):
    """seeded random automata with 5-12 states written as Timbuk files (no oracle can judge them: agreement only)"""
    d = os.path.join(rd, "rand")
    os.makedirs(d, exist_ok=True)
    alpha = [["a", 0], ["b", 0], ["g", 1], ["h", 1], ["f", 2]]
    files = []
    for i in range(n):
        nq = rng.randint(5, 12)
        A, _ = gen.rand_ta(rng, nq=nq, nrules=rng.randint(nq, 3 * nq), alpha=alpha, pfin=0.25)
        p = os.path.join(d, "r%03d" % i)
        with open(p, "w") as f:
            f.write(timbuk_text(A))
        files.append(p)
    return files


def check_C19(tier, seed, res, replay=None):
    rd = vlib.rundir("C19", tier)
    res.rule = ("triples (A,B,C) of automata from the repository's corpus (automata/small_timbuk, tests/aut_timbuk_smaller; thorough adds moderate_artmc_timbuk and "
                "artmc_timbuk files < 60 kB) and of seeded random automata with 5-12 states; per triple: all 8 selections on (A,B) and on a twin presentation (random "
                "bijective renamings, shuffled rule insertion and symbol registration), emptiness, downward simulation vs renamed image, sizes after Reduce / "
                "trimming, and the inclusion laws (A<=A, A<=AuB, AnB<=A, transitivity, A==Reduce/Trim/Reindex/Load(Dump)) with a seeded selection; each library call "
                "in a child process with a time limit (time-out = no verdict); non-trivial = at least 3 verdicts obtained and A non-empty")
    res.assumptions = ["no oracle on these inputs: only consequences of the contracts are checked (a disagreement is a certain violation, agreement is not a proof)",
                       "a time-out is 'no verdict', never a violation"]
    if replay:
        return do_replay(res, rd, replay, "TraceLaws.tla")
    rng = random.Random(seed)
    small, real, moderate, big = corpus(tier)
    cases = []

    def add(pool, n, call_ms, tag):
        if len(pool) < 3:
            return
        for i in range(n):
            a, b, c = rng.sample(pool, 3)
            if rng.random() < 0.3:
                b = a                       # equal operands: the reflexive corner of every law
            cases.append({"id": [tag, i], "op": "laws", "A": a, "B": b, "C": c, "seed": rng.randrange(1 << 30),
                          "law_sel": rng.choice([0, 1, 2, 4, 6]), "call_ms": call_ms, "tmo": 600000, "src": tag})
    # inclusion-related files come in smaller/bigger pairs: use them as (A,B) so that positive verdicts occur
    pairs = [(f, f.replace("_smaller", "_bigger")) for f in small if f.endswith("_smaller") and os.path.exists(f.replace("_smaller", "_bigger"))]
    for i, (a, b) in enumerate(pairs):
        cases.append({"id": ["pair", i], "op": "laws", "A": a, "B": b, "C": rng.choice(small), "seed": rng.randrange(1 << 30),
                      "law_sel": rng.choice([0, 2, 4, 6]), "call_ms": 3000, "tmo": 600000, "src": "small-pairs"})
    randf = random_files(rng, rd, 120 if tier == "thorough" else 40)
    if tier == "thorough":
        add(small, 600, 3000, "small")
        add(real, 120, 4000, "real")
        add(moderate, 80, 4000, "moderate")
        add(big, 40, 5000, "artmc")
        add(randf, 600, 3000, "random-large")
    else:
        add(small, 120, 2000, "small")
        add(real, 16, 1500, "real")
        add(randf, 100, 1500, "random-large")
    res.count_cases(cases, lambda c: True)
    res.add_samples(cases[:2] + cases[-1:])
    v = run_events(res, rd, "c19", cases, "TraceLaws.tla", timeout_ms=600000)
    # twin arm: driver-generated pairs (half of them "nearly included": B a shifted copy of A with a rule dropped / added), all 8
    # selections on the pair AND on a twin presentation; only pairs whose 16 verdicts are not all equal come back, judged by TLC
    nb, per = (960, 12000) if tier == "thorough" else (64, 8000)
    batches = [{"id": ["twinagree", i], "op": "inclagree", "twin": True, "seed": seed * 5003 + i, "count": per,
                "shape": ["near", "dense", "mid", "near"][i % 4], "tmo": 900000} for i in range(nb)]
    cf = os.path.join(rd, "twin.cases.ndjson")
    vlib.write_ndjson(cf, batches)
    events, pairs, noninc = [], 0, 0
    for sh in vlib.drive(cf, os.path.join(rd, "twin.ev"), timeout_ms=900000):
        for ev in vlib.read_ndjson(sh):
            if ev.get("outcome") != "ok":
                events.append(dict(ev, op="twin", A={"fin": [], "rules": []}, B={"fin": [], "rules": []}, tseed=0))
                continue
            pairs += ev["res"]["count"]
            noninc += ev["res"]["nonincluded"]
            events += ev["res"]["disagree"]
    res.extra["twin_arm_pairs"] = pairs
    res.extra["twin_arm_nonincluded_pairs"] = noninc
    res.extra["twin_arm_disagreements"] = len(events)
    if events:
        ef = os.path.join(rd, "twin.disagree.0.ndjson")
        vlib.write_ndjson(ef, events)
        v2 = vlib.tlc_validate("TraceLaws.tla", [ef])
        res.add_validation(v2)
        res.report_fails(v2["fails"], os.path.join(vlib.OUT, "viol"))
    # the laws as a user of the command line sees them: results printed under state NAMES (operands with ordinary, suffixed
    # and very long names; union / intersection results parsed back and judged by the language contracts), inclusion with
    # and without the pruning switches -p / -s (pruning an operand first must not change a verdict)
    import cli_arm
    cli_cases, incl_cases = [], []
    for i in range(1500 if tier == "thorough" else 300):
        A, alpha = gen.rand_ta(rng)
        B, _ = gen.rand_ta(rng, alpha=alpha)
        B = gen.rename(B, {q: q + 10 for q in range(8)})
        cli_cases.append({"id": ["cli", i], "cmd": rng.choice(["union", "isect", "isect"]), "A": A, "B": B})
        incl_cases.append({"id": ["cliincl", i], "op": "incl", "A": A, "B": B, "src": "random"})
    cli_arm.judge(res, rd, "c19ops", cli_arm.ta_op_events(cli_cases, rd), "TraceTA.tla")
    cli_arm.judge(res, rd, "c19incl", cli_arm.incl_events(incl_cases, rd), "TraceTA.tla")
    # measured: how many verdicts were actually obtained (time-outs are not coverage)
    got = tot = 0
    for sh in sorted(__import__("glob").glob(os.path.join(rd, "c19.ev.*.ndjson"))):
        if sh.endswith(".tlc.log"):
            continue
        for ev in vlib.read_ndjson(sh):
            r = ev.get("res", {})
            for x in r.get("v", []) + r.get("v_twin", []):
                tot += 1
                got += x in ("T", "F")
    res.extra["inclusion_verdicts_obtained"] = got
    res.extra["inclusion_calls"] = tot
