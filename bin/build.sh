#!/bin/bash
# Build libvata from /repo's CURRENT WORKING TREE (out of tree, hooks on) and the driver vdrive.
# usage: build.sh [--setup] [--san]
set -e
VERIF="$(cd "$(dirname "$0")/.." && pwd)"
REPO="${VERIF_REPO:-/repo}"
OUT="$VERIF/out"
mkdir -p "$OUT"
SAN=0; SETUP=0
for a in "$@"; do case "$a" in --san) SAN=1;; --setup) SETUP=1;; esac; done

EXTRA_TARGETS=""
build_lib() { # dir compiler extra-flags
  local dir="$1" cxx="$2" flags="$3"
  if [ ! -f "$dir/build.ninja" ]; then
    cmake -G Ninja -S "$REPO" -B "$dir" -DCMAKE_BUILD_TYPE=RelWithDebInfo \
      -DCMAKE_CXX_COMPILER="$cxx" \
      -DCMAKE_CXX_FLAGS_RELWITHDEBINFO="-O2 -g1 -DNDEBUG" \
      -DCMAKE_CXX_FLAGS="-Wno-error -DVATA_VERIF $flags" > "$dir.cmake.log" 2>&1 || { cat "$dir.cmake.log"; exit 2; }
  fi
  cmake --build "$dir" --target libvata $EXTRA_TARGETS -j16 > "$dir.build.log" 2>&1 || { tail -50 "$dir.build.log"; exit 2; }
}

(
  flock 9
  EXTRA_TARGETS="vata" build_lib "$OUT/build" g++ ""
  make -s -C "$VERIF/harness" REPO="$REPO" LIBDIR="$OUT/build/src" OUT="$OUT/bin" -j16 > "$OUT/harness.build.log" 2>&1 || { tail -40 "$OUT/harness.build.log"; exit 2; }
  if [ "$SAN" = 1 ]; then
    build_lib "$OUT/build-san" clang++ "-fsanitize=address,undefined -fno-omit-frame-pointer -fno-sanitize-recover=undefined"
    make -s -C "$VERIF/harness" REPO="$REPO" LIBDIR="$OUT/build-san/src" OUT="$OUT/bin-san" CXX=clang++ \
      SANFLAGS="-fsanitize=address,undefined -fno-omit-frame-pointer -fno-sanitize-recover=undefined" -j16 > "$OUT/harness-san.build.log" 2>&1 || { tail -40 "$OUT/harness-san.build.log"; exit 2; }
  fi
) 9>"$OUT/.build.lock"

if [ "$SETUP" = 1 ]; then
  for f in "$VERIF"/spec/*.tla; do
    ( cd "$VERIF/spec" && tla-sany "$(basename "$f")" > "$OUT/sany.log" 2>&1 ) || { echo "SANY failed: $f"; cat "$OUT/sany.log"; exit 2; }
  done
  python3 "$VERIF/bin/warm.py" || exit 2
fi
exit 0
