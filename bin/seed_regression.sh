#!/bin/bash
# usage: VERIF_REPO=<scratch copy of the repository> bin/seed_regression.sh [seed ids...]
# Applies every kept seeded change (seeded/*/patch.diff) to the scratch repository in turn, runs the quick check of the property
# it breaks, reverts, and prints one line per seed: SEED <id> <property> exit=<rc> violations=<n>. Never touches /repo when
# VERIF_REPO points elsewhere.
VERIF="$(cd "$(dirname "$0")/.." && pwd)"
REPO="${VERIF_REPO:-/repo}"
cd "$VERIF"
IDS="$@"
[ -z "$IDS" ] && IDS=$(ls seeded | grep -v "^rejected")
for id in $IDS; do
  prop=$(python3 -c "import json;print(json.load(open('seeded/$id/meta.json'))['property'])")
  git -C "$REPO" checkout -q -- . 
  if ! git -C "$REPO" apply "$VERIF/seeded/$id/patch.diff" 2>/dev/null; then echo "SEED $id $prop patch-does-not-apply"; continue; fi
  out=$(timeout 3000 bin/check "$prop" quick 2>&1); rc=$?
  n=$(echo "$out" | grep -c "^VIOLATION")
  echo "SEED $id $prop exit=$rc violations=$n"
  git -C "$REPO" checkout -q -- .
done
