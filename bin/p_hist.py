# History properties on explicit automata: C11 (values / isolation / results depend only on operands),
# C12 (container views).  Histories are replayed on real handles by vdrive (op "hist"), flattened into
# sequential traces (Reset-separated) and validated by TLC against Value.tla through TraceValue.tla.
import json
import os
import random
import re
import shutil

import gen
import vlib
from vlib import log

NH = 4


# ------------------------------------------------------------------------------ sequential validation
def tlc_validate_seq(module, cfg, events_per_hist, rd, name, timeout=1200, max_rounds=6, heap="3g", emit_reset=True):
    """events_per_hist: list of (hist_case, [event,...]) ; each history becomes Reset + events in one of 16 shard traces.
    A rejected trace (POSTCONDITION false) names the line where it got stuck; that history is reported and cut out,
    and the shard is validated again so that the rest is still checked. Returns dict(states, transitions, events, fails)."""
    nsh = min(vlib.NCPU, max(1, len(events_per_hist)))
    shards = [[] for _ in range(nsh)]
    for idx, item in enumerate(events_per_hist):
        shards[idx % nsh].append(item)
    fails = []
    total_states = total_gen = total_events = 0
    pending = list(range(nsh))
    rounds = 0
    while pending and rounds < max_rounds:
        rounds += 1
        jobs, metas, info = [], [], []
        for s in pending:
            path = os.path.join(rd, "%s.seq.%d.ndjson" % (name, s))
            linemap = []
            with open(path, "w") as f:
                for hi, (case, evs) in enumerate(shards[s]):
                    if emit_reset:
                        f.write(json.dumps({"op": "Reset", "kind": case.get("kind", "ta"), "hid": case.get("id")}, separators=(",", ":")) + "\n")
                        linemap.append(hi)
                    for e in evs:
                        f.write(json.dumps(e, separators=(",", ":")) + "\n")
                        linemap.append(hi)
            md = vlib.new_metadir()
            metas.append(md)
            lg = path + ".tlc.log"
            jobs.append((vlib.tlc_cmd(module, cfg, metadir=md, heap=heap), {"TRACE": path}, lg, timeout))
            info.append((s, path, lg, linemap))
        rcs = vlib.run_parallel(jobs)
        for md in metas:
            shutil.rmtree(md, ignore_errors=True)
        nxt = []
        for (s, path, lg, linemap), rc in zip(info, rcs):
            txt = open(lg).read()
            if rc is None:
                raise vlib.Broken("TLC trace validation timed out on " + path)
            m = None
            for line in txt.splitlines():
                mm = vlib.STATS_RE.match(line)
                if mm:
                    m = mm
            if m is None or "Model checking completed" not in txt and "TRACE-STUCK" not in txt:
                raise vlib.Broken("TLC trace validation failed on %s (rc=%s)\n%s" % (path, rc, txt[-3000:]))
            stuck = re.search(r'<<"TRACE-STUCK", (\d+)>>', txt)
            total_gen += int(m.group(1))
            total_states += int(m.group(2))
            if stuck:
                ln = int(stuck.group(1))            # 1-based line that could not be consumed
                if ln > len(linemap):
                    raise vlib.Broken("TRACE-STUCK beyond the end of " + path)
                hi = linemap[ln - 1]
                case, evs = shards[s][hi]
                # position inside the history
                first = linemap.index(hi)
                pos = ln - 1 - first - (1 if emit_reset else 0)
                ev = evs[pos] if 0 <= pos < len(evs) else {"op": "Reset"}
                total_events += ln - 1
                fails.append((case, pos, ev))
                del shards[s][hi]
                if shards[s]:
                    nxt.append(s)
            else:
                total_events += len(linemap)
        pending = nxt
    if pending:
        log("more than %d rejected histories in a shard; the remaining ones of those shards were not validated" % max_rounds)
    return {"states": total_states, "transitions": total_gen, "events": total_events, "fails": fails, "unvalidated_shards": len(pending)}


def run_histories(res, rd, name, cases, module="TraceValue.tla", cfg="TraceValue.cfg", timeout_ms=20000):
    cf = os.path.join(rd, name + ".cases.ndjson")
    vlib.write_ndjson(cf, cases)
    shards = vlib.drive(cf, os.path.join(rd, name + ".ev"), timeout_ms=timeout_ms)
    items = []
    for sh in shards:
        for ev in vlib.read_ndjson(sh):
            case = {k: ev[k] for k in ev if k not in ("res", "outcome", "what", "stage")}
            if ev.get("outcome") == "ok":
                items.append((case, ev["res"]["steps"]))
            else:
                # no action of the specification accepts an aborted execution
                items.append((case, [{"op": "Abort", "outcome": ev.get("outcome"), "stage": ev.get("stage", ""), "what": ev.get("what", "")}]))
    v = tlc_validate_seq(module, cfg, items, rd, name)
    res.add_validation(v)
    viol_dir = os.path.join(vlib.OUT, "viol")
    fails = []
    for case, pos, ev in v["fails"]:
        reasons = ["rejected-at:" + str(ev.get("op")) + (":" + str(ev.get("kind")) if ev.get("kind") else "")]
        if ev.get("op") == "Abort":
            reasons = ["outcome:" + str(ev.get("outcome"))]
        e2 = dict(case)
        e2["outcome"] = "ok"
        e2["stuck_step"] = pos
        e2["stuck_event"] = {k: ev[k] for k in ev if k not in ("views",)}
        fails.append((None, 0, reasons, e2))
    res.report_fails(fails, viol_dir)
    res.checker_cmds.append("vdrive run %s; TRACE=<shard> tlc -config %s %s (POSTCONDITION TraceAccepted)" % (os.path.basename(cf), cfg, module))
    if v["unvalidated_shards"] and not res.violations:
        raise vlib.Broken("too many rejected histories to finish validation")
    res.extra["shards_not_fully_validated_after_rejections"] = v["unvalidated_shards"]
    return v


def do_replay_hist(res, rd, replay):
    cases = []
    for c in vlib.read_ndjson(replay):
        c = {k: c[k] for k in c if k not in ("stuck_step", "stuck_event")}
        cases.append(c)
    res.count_cases(cases, lambda c: True)
    res.add_samples(cases)
    res.rule = "replay of " + replay
    run_histories(res, rd, "replay", cases)


# ------------------------------------------------------------------------------ generators
TA_RULES = [["a", [], 0], ["a", [], 1], ["b", [], 1], ["b", [], 2], ["g", [0], 0], ["g", [0], 1], ["g", [1], 2], ["g", [2], 0],
            ["f", [0, 0], 1], ["f", [0, 1], 2], ["f", [1, 0], 0], ["f", [2, 2], 2], ["f", [1, 1], 1]]
DERIVE1 = ["unreach", "useless", "reduce", "witness", "reindex"]
DERIVE2 = ["union", "isect", "isectbu"]


def gen_ta_history(rng, nsteps, queries=True):
    live = set()
    size = {}
    fam = {}        # handles of one family may share rule storage (copies, assignments, results that keep the table)
    nfam = [0]
    steps = []
    for _ in range(nsteps):
        dead = [h for h in range(NH) if h not in live]
        r = rng.random()
        if not live or (dead and r < 0.08):
            h = rng.choice(dead)
            steps.append(["new", h])
            live.add(h)
            size[h] = 0
            nfam[0] += 1
            fam[h] = nfam[0]
            continue
        h = rng.choice(sorted(live))
        if r < 0.38:
            steps.append(["add", h, rng.choice(TA_RULES), rng.random() < 0.3])
            size[h] += 1
        elif r < 0.48:
            steps.append(["final", h, rng.randrange(3)])
        elif r < 0.51:
            steps.append(["finals", h, sorted(rng.sample([0, 1, 2], rng.randint(0, 3)))])
        elif r < 0.54:
            steps.append(["erasefinal", h])
        elif r < 0.58:
            steps.append(["clear", h])
            size[h] = 0
        elif r < 0.68 and dead:
            d = rng.choice(dead)
            steps.append(["copyctor", d, h, rng.random() < 0.85, rng.random() < 0.85])
            live.add(d)
            size[d] = size[h]
            fam[d] = fam.get(h)
        elif r < 0.74:
            g = rng.choice(sorted(live))
            steps.append(["assign", h, g])
            size[h] = size[g]
            fam[h] = fam.get(g)
        elif r < 0.78 and dead:
            d = rng.choice(dead)
            steps.append(["movector", d, h])
            live.add(d)
            live.discard(h)
            size[d] = size[h]
            fam[d] = fam.get(h)
        elif r < 0.81 and len(live) > 1:
            g = rng.choice(sorted(live - {h}))
            steps.append(["moveassign", h, g])
            live.discard(g)
            size[h] = size[g]
        elif r < 0.85:
            steps.append(["destroy", h])
            live.discard(h)
        elif r < 0.89 and len(live) > 1:
            g = rng.choice(sorted(live - {h}))
            if size[g] <= 9:
                if rng.random() < 0.6:
                    steps.append(["reindexinto", h, g, rng.randrange(3), rng.random() < 0.7])
                else:
                    steps.append(["copytrans", h, g, sorted(rng.sample([0, 1, 2], rng.randint(1, 2)))])
                size[h] += size[g]
        elif r < 0.95 and dead and size[h] <= 9:
            d = rng.choice(dead)
            if rng.random() < 0.55:
                steps.append(["derive", d, rng.choice(DERIVE1), h])
                size[d] = size[h]
                fam[d] = fam.get(h)
            else:
                g = rng.choice(sorted(live))
                if size[g] > 9:
                    continue
                steps.append(["derive", d, rng.choice(DERIVE2), h, g])
                size[d] = size[h] + size[g] + 2
            live.add(d)
        elif queries and size[h] <= 14:
            if rng.random() < 0.7:
                g = rng.choice(sorted(live))
                kin = [x for x in sorted(live) if x != h and fam.get(x) == fam.get(h)]
                if kin and rng.random() < 0.6:
                    g = rng.choice(kin)        # operands that may share storage but differ in value (final states, later rules)
                if size[g] <= 14:
                    steps.append(["query", "incl", h, g, rng.randrange(8)])
                    if rng.random() < 0.5:
                        steps.append(["query", "incl", g, h, rng.randrange(8)])
            elif rng.random() < 0.5:
                steps.append(["query", "empty", h])
            else:
                steps.append(["query", "simdown", h])
    return {"op": "hist", "kind": "ta", "sym": "names", "steps": steps}


def ta_sharing_opening(rng):
    """scripted openings: two or three handles that SHARE rule storage (copy, assignment, a trimming result that removed nothing) while
    differing in value only through their final states, then queries / assignments between them - followed by a random continuation"""
    rules = rng.sample(TA_RULES, rng.randint(2, 5))
    steps = [["new", 0]] + [["add", 0, r, False] for r in rules] + [["final", 0, rng.randrange(3)]]
    kind = rng.randrange(4)
    if kind == 0:
        steps += [["copyctor", 1, 0, True, True], ["final", rng.choice([0, 1]), rng.randrange(3)]]
    elif kind == 1:
        steps += [["derive", 1, rng.choice(["unreach", "useless"]), 0], ["final", rng.choice([0, 1]), rng.randrange(3)]]
    elif kind == 2:
        steps += [["new", 1], ["assign", 1, 0], ["erasefinal", rng.choice([0, 1])], ["final", rng.choice([0, 1]), rng.randrange(3)]]
    else:
        steps += [["copyctor", 1, 0, True, True], ["final", 0, rng.randrange(3)], ["final", 1, rng.randrange(3)], ["assign", 1, 0],
                  ["final", 0, rng.randrange(3)], ["assign", 1, 0]]
    for _ in range(rng.randint(2, 4)):
        a, b = rng.choice([(0, 1), (1, 0)])
        steps.append(["query", "incl", a, b, rng.randrange(8)])
    if rng.random() < 0.5:
        steps += [["copyctor", 2, 1, True, True], ["finals", 2, sorted(rng.sample([0, 1, 2], rng.randint(1, 2)))], ["query", "incl", 2, 0, rng.randrange(8)],
                  ["query", "incl", 0, 2, rng.randrange(8)], ["query", "empty", 2]]
    return steps


RAW_RULES = [[0, [], 0], [0, [], 1], [0, [0], 1], [0, [1, 1], 2], [1, [], 2], [1, [2], 2], [1, [0, 1], 0], [2, [3], 3],
             [2, [0, 0], 0], [1, [0], 0], [0, [0, 0, 0], 1]]
RAW_NEVER = [[3, [], 0], [0, [2], 2], [1, [1, 1], 1]]


def gen_c12_history(rng, nsteps):
    live = set()
    steps = []
    for _ in range(nsteps):
        dead = [h for h in range(NH) if h not in live]
        r = rng.random()
        if not live or (dead and r < 0.05):
            h = rng.choice(dead)
            steps.append(["new", h])
            live.add(h)
            continue
        h = rng.choice(sorted(live))
        if r < 0.55:
            steps.append(["add", h, rng.choice(RAW_RULES), rng.random() < 0.3])
        elif r < 0.68:
            steps.append(["final", h, rng.randrange(5)])
        elif r < 0.75:
            steps.append(["finals", h, sorted(rng.sample([0, 1, 2, 3, 4], rng.randint(0, 3)))])
        elif r < 0.81:
            steps.append(["erasefinal", h])
        elif r < 0.87:
            steps.append(["clear", h])
        elif r < 0.93 and dead:
            d = rng.choice(dead)
            steps.append(["copyctor", d, h, True, True])
            live.add(d)
        elif r < 0.97:
            steps.append(["assign", h, rng.choice(sorted(live))])
        else:
            steps.append(["destroy", h])
            live.discard(h)
    c = {"op": "hist", "kind": "ta", "sym": "raw", "views": True, "universe": RAW_RULES + RAW_NEVER,
         "vstates": [0, 1, 2, 3, 4, 5], "steps": steps}
    if rng.random() < 0.55:
        # only some of the views are asked in this history (a view that is always asked can mask a defect of another one)
        names = ["accept", "down", "contains", "used", "empty", "isfinal"]
        c["vsel"] = sorted(rng.sample(names, rng.choice([1, 1, 2, 2, 3, 4])))
    if rng.random() < 0.25:
        # "huge" presentation: some states get numbers beyond 32 bits (the driver maps 10^9 + k to 2^33 + k and back)
        big = set(q for q in range(6) if rng.random() < 0.5) or {rng.randrange(6)}
        f = lambda q: q + 10 ** 9 if q in big else q
        fr = lambda r: [r[0], [f(k) for k in r[1]], f(r[2])]
        c["universe"] = [fr(r) for r in c["universe"]]
        c["vstates"] = [f(q) for q in c["vstates"]]
        for st in steps:
            if st[0] == "add":
                st[2] = fr(st[2])
            elif st[0] == "final":
                st[2] = f(st[2])
            elif st[0] == "finals":
                st[2] = sorted(f(q) for q in st[2])
        c["huge"] = sorted(big)
    return c


FA_EDGES = [[0, "a", 0], [0, "a", 1], [1, "b", 1], [1, "a", 2], [2, "b", 0], [2, "a", 2], [0, "b", 2]]
FA_DERIVE1 = ["reverse", "unreach", "useless", "witness"]
FA_DERIVE2 = ["union", "isect"]
# two disjoint state ranges so that UnionDisjointStates gets in-domain operands that are results of other operations
FA_BASE = {"lo": 0, "hi": 10}


def gen_fa_history(rng, nsteps):
    live = set()
    size = {}
    cls = {}           # handle -> "lo" / "hi" (all its states are in that range) or None (unknown: result of union / isect)
    steps = []
    for _ in range(nsteps):
        dead = [h for h in range(NH) if h not in live]
        r = rng.random()
        if not live or (dead and r < 0.08):
            h = rng.choice(dead)
            steps.append(["new", h])
            live.add(h)
            size[h] = 0
            cls[h] = rng.choice(["lo", "hi"])
            continue
        h = rng.choice(sorted(live))
        base = FA_BASE.get(cls.get(h), 0)
        if r < 0.36:
            e = rng.choice(FA_EDGES)
            steps.append(["add", h, [e[0] + base, e[1], e[2] + base]])
            size[h] += 1
            if cls.get(h) is None:
                pass
        elif r < 0.46:
            steps.append(["final", h, rng.randrange(3) + base])
        elif r < 0.56:
            steps.append(["start", h, rng.randrange(3) + base])
        elif r < 0.66 and dead:
            d = rng.choice(dead)
            steps.append(["copyctor", d, h])
            live.add(d)
            size[d] = size[h]
            cls[d] = cls.get(h)
        elif r < 0.72:
            g = rng.choice(sorted(live))
            steps.append(["assign", h, g])
            size[h] = size[g]
            cls[h] = cls.get(g)
        elif r < 0.76 and dead:
            d = rng.choice(dead)
            steps.append(["movector", d, h])
            live.add(d)
            live.discard(h)
            size[d] = size[h]
            cls[d] = cls.get(h)
        elif r < 0.79 and len(live) > 1:
            g = rng.choice(sorted(live - {h}))
            steps.append(["moveassign", h, g])
            live.discard(g)
            size[h] = size[g]
            cls[h] = cls.get(g)
        elif r < 0.84:
            steps.append(["destroy", h])
            live.discard(h)
        elif r < 0.93 and dead and size[h] <= 9:
            d = rng.choice(dead)
            if rng.random() < 0.5:
                steps.append(["derive", d, rng.choice(FA_DERIVE1), h])
                size[d] = size[h]
                cls[d] = cls.get(h)
            else:
                g = rng.choice(sorted(live))
                if size[g] > 9:
                    continue
                disj = [x for x in sorted(live) if cls.get(x) and cls.get(h) and cls[x] != cls[h] and size[x] <= 9]
                if disj and rng.random() < 0.5:
                    g = rng.choice(disj)
                    steps.append(["derive", d, "uniondisj", h, g])
                else:
                    steps.append(["derive", d, rng.choice(FA_DERIVE2), h, g])
                size[d] = size[h] + size[g] + 2
                cls[d] = None
            live.add(d)
        elif size[h] <= 12:
            g = rng.choice(sorted(live))
            if size[g] <= 12:
                steps.append(["query", "incl", h, g, rng.randrange(3)])
    return {"op": "hist", "kind": "fa", "steps": steps}


def continuation(rng, live0, nsteps):
    """a random continuation from a state in which exactly the handles live0 are live (sizes unknown but small)"""
    tail = gen_ta_history(rng, nsteps + 12)["steps"]
    live = set(live0)
    out = []
    for s in tail:
        op = s[0]
        tgt = s[1] if isinstance(s[1], int) else None
        srcs = [x for x in s[2:] if isinstance(x, int) and not isinstance(x, bool)] if op in ("copyctor", "assign", "movector", "moveassign", "reindexinto", "copytrans") else \
               ([s[3]] + ([s[4]] if len(s) > 4 else []) if op == "derive" else ([s[2]] + ([s[3]] if s[1] == "incl" else []) if op == "query" else []))
        if op in ("reindexinto",):
            srcs = [s[2]]
        if op == "copytrans":
            srcs = [s[2]]
        if any(x not in live for x in srcs):
            continue
        if op in ("new", "copyctor", "movector", "derive"):
            if tgt in live:
                continue
        elif op != "query" and tgt not in live:
            continue
        if op in ("movector", "moveassign") and (srcs[0] == tgt):
            continue
        out.append(s)
        if op in ("new", "copyctor", "derive"):
            live.add(tgt)
        elif op == "movector":
            live.add(tgt)
            live.discard(srcs[0])
        elif op == "moveassign":
            live.discard(srcs[0])
        elif op == "destroy":
            live.discard(tgt)
    return out[:nsteps]


def nt_hist(c):
    """non-trivial: a mutation or release happens after a sharing step"""
    shared = False
    for s in c["steps"]:
        if s[0] in ("copyctor", "assign", "derive", "movector", "moveassign"):
            shared = True
        elif shared and s[0] in ("add", "final", "finals", "erasefinal", "clear", "destroy", "start"):
            return True
    return False


def load_killer_hists(name):
    p = os.path.join(vlib.SPEC, "killers", name)
    return vlib.read_ndjson(p) if os.path.exists(p) else []


# ------------------------------------------------------------------------------ C11
def check_C11(tier, seed, res, replay=None):
    rd = vlib.rundir("C11", tier)
    res.rule = ("seeded random handle histories over 4 handles of ExplicitTreeAut (new / AddTransition (both overloads) / SetStateFinal / SetStatesFinal / "
                "EraseFinalStates / Clear / copy-ctor with flags / copy-assign incl. self / move-ctor / move-assign / destroy / derived results (union, isect, "
                "isectBU, unreach, useless, reduce, witness, reindex) / queries (8 inclusion selections, emptiness)) and of ExplicitFiniteAut, plus the histories "
                "generated by TLC from the CowStore model (every sharing shape of the bound) and its mutant killers; all live handles projected after every step; "
                "non-trivial = a mutation or release after a sharing step; distinct by content hash")
    res.assumptions = ["a moved-from automaton is only destroyed (the driver destroys it in the same step)",
                       "results of library operations are judged by their Layer-1 contract on the current operand values (state naming is free)"]
    if replay:
        return do_replay_hist(res, rd, replay)
    rng = random.Random(seed)
    cases = []
    n_ta, n_fa, steps = (6000, 2000, 60) if tier == "thorough" else (1200, 400, 40)
    for i in range(n_ta):
        c = gen_ta_history(rng, rng.randint(steps // 2, steps))
        if i % 3 == 2:
            # scripted storage-sharing opening + the tail of a random history restricted to steps that are valid afterwards
            opening = ta_sharing_opening(rng)
            live_after = {0, 1} | ({2} if any(s[0] == "copyctor" and s[1] == 2 for s in opening) else set())
            c = {"op": "hist", "kind": "ta", "sym": "names", "steps": opening + continuation(rng, live_after, steps // 2)}
        c["id"] = ["ta", i]
        cases.append(c)
    for i in range(n_fa):
        c = gen_fa_history(rng, rng.randint(steps // 2, steps))
        c["id"] = ["fa", i]
        cases.append(c)
    for k in load_killer_hists("CowStore.ndjson"):
        cases.append(k)
    cases += cow_histories(tier)
    res.count_cases(cases, nt_hist)
    res.add_samples([{"kind": c["kind"], "steps": c["steps"][:12]} for c in cases if nt_hist(c)][:3])
    run_histories(res, rd, "c11", cases)
    cow_model(res, tier)


COW_MUTANTS = ["SkipUniqueMap", "SkipUniqueCluster", "SkipUniqueTs", "ClearInPlace"]


def cow_histories(tier):
    """spec -> impl: the discovery path of every distinct state of the CowStore model (BFS, hist hidden by VIEW)"""
    cfg = "CowStoreGen5.cfg" if tier == "thorough" else "CowStoreGen.cfg"
    hs, _ = vlib.tlc_emit("CowStore.tla", cfg, "HIST", cache_deps=["CowStore.tla", cfg], tag="cowhist")
    return [{"op": "hist", "kind": "ta", "sym": "names", "steps": h, "id": ["cow", i], "src": "CowStore"} for i, h in enumerate(hs)]


def cow_model(res, tier):
    """Layer 2: the storage model refines Value for every interleaving within the bound; every mutant is refuted"""
    m = vlib.tlc_model("CowStore.tla", "CowStore6.cfg" if tier == "thorough" else "CowStore.cfg", coverage=True, timeout=1500)
    res.add_model(m)
    if not m["ok"]:
        raise vlib.Broken("the CowStore model violates Refines: the model no longer describes a correct design (%s)" % m["log"])
    refuted = 0
    for mut in COW_MUTANTS:
        ks, info = vlib.tlc_emit("CowStore.tla", "CowStore_%s.cfg" % mut, "KILLER")
        if info and not info["ok"]:
            refuted += 1
    res.extra["model_mutants_refuted"] = "%d/%d" % (refuted, len(COW_MUTANTS))
    if refuted != len(COW_MUTANTS):
        raise vlib.Broken("a CowStore model mutant is no longer refuted: the invariant has become vacuous")


# ------------------------------------------------------------------------------ C12
def check_C12(tier, seed, res, replay=None):
    rd = vlib.rundir("C12", tier)
    res.rule = ("seeded random histories of AddTransition (both overloads, repeated rules, nullary rules, one raw symbol number used with several arities), "
                "SetStateFinal, SetStatesFinal, EraseFinalStates, Clear (plus copies/assignments so that views are also read through sharing handles); after every "
                "step every live handle's views are logged: iteration (as a bag), GetAcceptTrans (bag), operator[] for 6 states (bag + empty()), ContainsTransition "
                "(both overloads) over a 14-rule universe incl. never-added rules, GetUsedStates, AreTransitionsEmpty, IsStateFinal; non-trivial = history contains "
                "a mutation after a sharing step or a Clear/EraseFinalStates after an add")
    if replay:
        return do_replay_hist(res, rd, replay)
    rng = random.Random(seed)
    cases = []
    n, steps = (6000, 50) if tier == "thorough" else (1200, 30)
    for i in range(n):
        c = gen_c12_history(rng, rng.randint(steps // 2, steps))
        c["id"] = ["c12", i]
        cases.append(c)

    def nt(c):
        added = False
        for s in c["steps"]:
            if s[0] == "add":
                added = True
            elif added and s[0] in ("clear", "erasefinal"):
                return True
        return nt_hist(c)
    res.count_cases(cases, nt)
    res.add_samples([{"steps": c["steps"][:12]} for c in cases if nt(c)][:3])
    run_histories(res, rd, "c12", cases)
