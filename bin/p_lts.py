# C16: the LTS simulation engine
import json
import random

import vlib
from p_ta import run_events, do_replay

LTS_DEPS = ["LTS.tla", "GenLTS.tla"]


def enum_lts(nq, maxe, sigma, sample=None, rng=None, shards=16):
    envs = [{"GEN_NQ": str(nq), "GEN_MAXR": str(maxe), "GEN_SIGMA": str(sigma), "GEN_SHARD": str(s), "GEN_NSHARDS": str(shards)}
            for s in range(shards)]
    tag = "lts-%d-%d-%d" % (nq, maxe, sigma)
    out = []
    for f in vlib.tlc_generate("GenLTS.tla", envs, LTS_DEPS, tag):
        with open(f) as fh:
            for line in fh:
                if sample is not None and rng.random() >= sample:
                    continue
                c = json.loads(line)
                c["src"] = tag
                out.append(c)
    return out


def rand_preorder(rng, m):
    r = [[1 if i == j or rng.random() < 0.35 else 0 for j in range(m)] for i in range(m)]
    for k in range(m):
        for i in range(m):
            for j in range(m):
                if r[i][k] and r[k][j]:
                    r[i][j] = 1
    return r


def rand_lts(rng, nmax=5, nmin=1):
    n = rng.choice(list(range(nmin, nmax + 1)))
    sigma = rng.choice([1, 2, 2, 3])
    ne = rng.choice(list(range(0, 2 * n + 3)))
    edges = [[rng.randrange(n), rng.randrange(sigma), rng.randrange(n)] for _ in range(ne)]   # a bag: duplicates possible
    c = {"n": n, "edges": edges}
    if rng.random() < 0.8:
        st = list(range(n))
        rng.shuffle(st)
        m = rng.randint(1, n)
        part = [[] for _ in range(m)]
        for i, q in enumerate(st):
            part[i if i < m else rng.randrange(m)].append(q)
        c["part"] = part
        c["rel"] = rand_preorder(rng, m)
    return c


def present_lts(c, rng):
    d = dict(c, op="lts")
    edges = [list(e) for e in c["edges"]]
    for e in list(edges):                      # parallel edges matter for the engine's counters
        if rng.random() < 0.2:
            edges.append(list(e))
    rng.shuffle(edges)
    d["edges"] = edges
    d["k"] = rng.choice([c["n"], c["n"], c["n"], max(1, c["n"] - 1), 1])
    r = rng.random()
    if r < 0.15:
        d["twice"] = True                               # the same question asked twice on the same object
    elif r < 0.30 and len(edges) >= 2:
        # the same object asked before and after the last edges are added (their labels already occur in the first part,
        # and the highest label is there too: init() sizes its per-state label sets by the number of labels)
        ok = [g for g in range(1, len(edges)) if set(e[1] for e in edges[g:]) <= set(e[1] for e in edges[:g])]
        if ok:
            d["grow"] = rng.choice(ok)
    if "part" in d and all(len(b) == c["n"] for b in d["part"]) and rng.random() < 0.5:
        # one block related to itself = "no partition given": use the overload without partition
        d.pop("part")
        d.pop("rel")
    return d


def check_C16(tier, seed, res, replay=None):
    rd = vlib.rundir("C16", tier)
    res.rule = ("every LTS with <=3 states, 2 labels, <=4 edges x every partition into blocks x every reflexive-transitive block relation (TLC-enumerated; sampled in "
                "quick), with random parallel edges, edge order and output size k<=n; plus seeded random LTSs (<=5 states, <=3 labels) with random partition/preorder; "
                "non-trivial = has an edge and the expected relation is not decided by the initial preorder alone (>= 2 states)")
    if replay:
        return do_replay(res, rd, replay, "TraceLTS.tla")
    rng = random.Random(seed)
    cases = []
    frac = 1.0 if tier == "thorough" else 0.15
    for n in (1, 2, 3):
        for c in enum_lts(n, 4 if n < 3 else (4 if tier == "thorough" else 3), 2, sample=(1.0 if n < 3 else frac), rng=rng):
            cases.append(present_lts(c, rng))
    for i in range(40000 if tier == "thorough" else 8000):
        c = rand_lts(rng)
        c["id"] = ["r", i]
        c["src"] = "random"
        cases.append(present_lts(c, rng))
    # medium LTSs (8-14 states) judged directly by TLC: the engine's block splitting only gets going with more states
    for i in range(3000 if tier == "thorough" else 400):
        c = rand_lts(rng, nmax=14, nmin=8)
        c["id"] = ["m", i]
        c["src"] = "random-medium"
        cases.append(present_lts(c, rng))
    from p_ta import load_killers, model_with_mutants
    cases += load_killers("lts.ndjson")
    nt = lambda c: c["n"] >= 2 and len(c["edges"]) > 0
    res.count_cases(cases, nt)
    res.add_samples([c for c in cases if nt(c)][:3])
    run_events(res, rd, "c16", cases, "TraceLTS.tla")
    # large LTSs (10-45 states, several counter rows): screened in the driver for consequences of the contract, suspicious ones to TLC
    import os
    nb, per = (320, 400) if tier == "thorough" else (32, 250)
    batches = [{"id": ["ltsagree", i], "op": "ltsagree", "seed": seed * 7753 + i, "count": per, "tmo": 900000} for i in range(nb)]
    cf = os.path.join(rd, "agree.cases.ndjson")
    vlib.write_ndjson(cf, batches)
    events, n = [], 0
    for sh in vlib.drive(cf, os.path.join(rd, "agree.ev"), timeout_ms=900000):
        for ev in vlib.read_ndjson(sh):
            if ev.get("outcome") != "ok":
                events.append(dict(ev, op="lts", n=0, k=0, edges=[]))
                continue
            n += ev["res"]["count"]
            events += ev["res"]["suspicious"]
    res.extra["large_lts_screened"] = n
    res.extra["large_lts_suspicious"] = len(events)
    if events:
        ef = os.path.join(rd, "agree.suspicious.0.ndjson")
        vlib.write_ndjson(ef, events[:40])
        v = vlib.tlc_validate("TraceLTS.tla", [ef], heap="6g")
        res.add_validation(v)
        res.report_fails(v["fails"], os.path.join(vlib.OUT, "viol"))
    # Layer 2: the partition-relation engine as a state machine (blocks, block relation, counters with parallel edges,
    # remove lists, queue); every LTS / partition / preorder of the bound, every processing order; safety + termination
    model_with_mutants(res, "LtsSim.tla", "LtsSimAll.cfg" if tier == "thorough" else "LtsSim4.cfg",
                       ["DedupPre", "NoInheritRemove", "NoMaskWhole", "SkipPrune"] if tier == "thorough" else [], "LtsSim", timeout=3000)
    if tier == "thorough":
        res.add_model(vlib.tlc_model("LtsSim.tla", "LtsSim4.cfg", timeout=3000, heap="16g"))
    # step-level binding of LtsSim: recorded executions of the real engine must be behaviours of the model (evidence only)
    import p_hist
    def mult_ok(c):
        seen = {}
        for e in c["edges"]:
            seen[tuple(e)] = seen.get(tuple(e), 0) + 1
        return all(v <= 2 for v in seen.values())      # the model's multiplicities are 1 or 2
    pool = [c for c in cases if nt(c) and c["n"] <= 6 and mult_ok(c) and all(e[1] < 4 for e in c["edges"])]
    rng.shuffle(pool)
    sample = [dict(c, op="ltstrace") for c in pool[:8000 if tier == "thorough" else 1500]]
    cf = os.path.join(rd, "bind.cases.ndjson")
    vlib.write_ndjson(cf, sample)
    items = []
    for sh in vlib.drive(cf, os.path.join(rd, "bind.ev"), timeout_ms=3000):
        for ev in vlib.read_ndjson(sh):
            if ev.get("outcome") == "ok" and ev["res"]["events"] and ev["res"]["events"][0].get("e") == "Start":
                evs = ev["res"]["events"]
                items.append(({"id": ev.get("id"), "kind": "ltssim", "n": ev["n"], "edges": ev["edges"], "part": ev.get("part"), "rel": ev.get("rel")},
                              [evs[0], {"e": "Begin"}] + evs[1:]))
    mb = res.extra.setdefault("model_binding", {})
    if items:
        vb = p_hist.tlc_validate_seq("TraceLtsSim.tla", "TraceLtsSim.cfg", items, rd, "bind", emit_reset=False)
        res.add_validation(vb)
        mb["LtsSim"] = {"executions": len(items), "step_events_accepted": vb["events"], "diverged": len(vb["fails"]),
                        "first_divergence": ({"case": vb["fails"][0][0], "at_event": vb["fails"][0][2]} if vb["fails"] else None)}
        if vb["fails"]:
            print("MODEL-BINDING-DIVERGED model=LtsSim executions=%d diverged>=%d (evidence only, not a violation)" % (len(items), len(vb["fails"])))
    else:
        mb["LtsSim"] = "no step events recorded (hook absent?)"
