# C17 (MTBDD operations pointwise correct, canonical) and C18 (node lifetime / store sizes).
import json
import os
import random

import vlib
from p_hist import tlc_validate_seq, load_killer_hists

NH = 4
W = 4


def rand_asg(rng, n, maxvar):
    """assignment of length n; variables above maxvar are don't care"""
    return [rng.choice([0, 1, 2, 2]) if i <= maxvar else 2 for i in range(n)]


VMAPS = [[3, 17, 64, 65], [0, 255, 256, 65535], [1, 65535, 65536, 65537], [65536, 70000, 131072, 131073], [5, 1 << 20, (1 << 20) + 1, (1 << 20) + 7]]


def gen_mtbdd_history(rng, nsteps, full):
    # "vmap": the W logical variables are spread over physical variable indices (beyond 8 / 16 / 20 bits); steps whose
    # meaning depends on variables being contiguous (rename / extend / prefix) are left out of such histories
    vmap = rng.choice(VMAPS) if rng.random() < 0.15 else None
    live = {}          # handle -> conservative upper bound of the highest variable the function depends on (-1: constant)
    steps = []
    reuse = rng.random() < 0.5
    for _ in range(nsteps):
        if steps and steps[-1][0] in ("apply1", "apply2", "apply3", "project") and rng.random() < 0.2:
            # ask again: the result is destroyed (or an operand handle re-assigned to another value and back) and the very
            # same call is made again on the same handle objects
            last = steps[-1]
            steps.append(["destroy", last[1]])
            steps.append(list(last))
            continue
        dead = [h for h in range(NH) if h not in live]
        r = rng.random()
        if not live or (dead and r < 0.22):
            h = rng.choice(dead)
            if rng.random() < 0.15:
                steps.append(["const", h, rng.randrange(4)])
                live[h] = -1
            else:
                mv = rng.choice([1, 1, 2, 3])
                a = rand_asg(rng, W, mv)
                steps.append(["mk", h, a, rng.randrange(5), rng.randrange(3)])
                live[h] = max([i for i in range(W) if a[i] != 2], default=-1)
            continue
        hs = sorted(live)
        h = rng.choice(hs)
        if r < 0.30 and dead:
            d = rng.choice(dead)
            steps.append(["copy", d, h])
            live[d] = live[h]
        elif r < 0.40:
            g = rng.choice(hs)              # self-assignment included
            steps.append(["assign", h, g])
            live[h] = live[g]
        elif r < 0.55:
            steps.append(["destroy", h])
            del live[h]
        elif dead:
            d = rng.choice(dead)
            kind = rng.random()
            if kind < 0.15:
                steps.append(["apply1", d, rng.choice(["sq", "inc", "zero"]), h])
                live[d] = live[h]
            elif kind < 0.55 or not full:
                g = rng.choice(hs)
                if rng.random() < 0.7:
                    steps.append(["apply2", d, rng.choice(["plus", "max", "times", "left"]), h, g])
                    live[d] = max(live[h], live[g])
                else:
                    k = rng.choice(hs)
                    steps.append(["apply3", d, rng.choice(["ite", "plus3"]), h, g, k])
                    live[d] = max(live[h], live[g], live[k])
            elif kind < 0.68:
                vs = sorted(rng.sample(range(W), rng.randint(1, 3)))
                steps.append(["project", d, h, vs, rng.choice(["max", "max", "plus", "times"])])
                live[d] = live[h]
            elif vmap:
                continue
            elif kind < 0.80:
                ub = live[h]
                if ub < W - 1:
                    s = rng.randint(1, W - 1 - ub) if ub >= 0 else 1
                    steps.append(["rename", d, h, [[v, v + s] for v in range(0, ub + 1)]])
                    live[d] = ub + s if ub >= 0 else -1
                else:
                    continue
            elif kind < 0.92:
                ub = live[h]
                if ub < W - 1:
                    off = rng.randint(ub + 1, W - 1)
                    ln = rng.randint(1, W - off)
                    steps.append(["extend", d, h, [rng.choice([0, 1, 2]) for _ in range(ln)], off])
                    live[d] = off + ln - 1
                else:
                    continue
            else:
                off = rng.randint(0, W)
                steps.append(["prefix", d, h, [rng.choice([0, 1, 2]) for _ in range(W - off + rng.randint(0, 1))], off])
                live[d] = min(live[h], off - 1)
    c = {"op": "mtbdd", "W": W, "steps": steps, "sz": not full}
    if vmap:
        c["vmap"] = vmap
    if reuse:
        c["reuse"] = True       # one functor object per operation for the whole history (see harness/ops_mtbdd.cc)
    return c


def run_mtbdd(res, rd, name, cases):
    cf = os.path.join(rd, name + ".cases.ndjson")
    vlib.write_ndjson(cf, cases)
    shards = vlib.drive(cf, os.path.join(rd, name + ".ev"), timeout_ms=20000)
    items = []
    for sh in shards:
        for ev in vlib.read_ndjson(sh):
            case = {k: ev[k] for k in ev if k not in ("res", "outcome", "what", "stage")}
            case["kind"] = "mtbdd"
            if ev.get("outcome") == "ok":
                r = ev["res"]
                items.append((case, r["steps"] + [{"op": "End", "end": r["end"]}], {"base": r["base"], "sz": bool(case.get("sz"))}))
            else:
                items.append((case, [{"op": "Abort", "outcome": ev.get("outcome"), "stage": ev.get("stage", "")}], {"base": [0, 0], "sz": False}))
    # Reset lines carry base and sz: wrap by subclassing the generic sequential validator through a small adapter
    wrapped = []
    for case, evs, hdr in items:
        c2 = dict(case)
        c2["_hdr"] = hdr
        wrapped.append((c2, evs))
    v = tlc_validate_seq_hdr("TraceMtbdd.tla", "TraceMtbdd.cfg", wrapped, rd, name)
    res.add_validation(v)
    fails = []
    for case, pos, ev in v["fails"]:
        reasons = ["rejected-at:" + str(ev.get("op"))]
        if ev.get("op") == "Abort":
            reasons = ["outcome:" + str(ev.get("outcome"))]
        e2 = {k: case[k] for k in case if k not in ("_hdr", "kind")}
        e2["outcome"] = "ok"
        e2["stuck_step"] = pos
        e2["stuck_event"] = ev
        fails.append((None, 0, reasons, e2))
    res.report_fails(fails, os.path.join(vlib.OUT, "viol"))
    res.checker_cmds.append("vdrive run %s; TRACE=<shard> tlc -config TraceMtbdd.cfg TraceMtbdd.tla (POSTCONDITION TraceAccepted)" % os.path.basename(cf))
    if v["unvalidated_shards"] and not res.violations:
        raise vlib.Broken("too many rejected histories to finish validation")
    res.extra["shards_not_fully_validated_after_rejections"] = v["unvalidated_shards"]
    return v


def tlc_validate_seq_hdr(module, cfg, items, rd, name):
    """like p_hist.tlc_validate_seq, but the Reset line carries the per-history header (base store size, sz flag)"""
    import p_hist
    orig = json.dumps

    def dumps(o, **kw):
        return orig(o, **kw)
    # p_hist writes {"op":"Reset","kind":..,"hid":..}; extend it through the case's kind field carrying the header
    items2 = []
    for case, evs in items:
        hdr = case["_hdr"]
        first = {"op": "Reset", "base": hdr["base"], "sz": hdr["sz"]}
        items2.append((case, [first] + evs))
    # trick: let the generic routine emit its own Reset (accepted by TReset? no) -> we bypass by a custom emitter
    return p_hist.tlc_validate_seq(module, cfg, items2, rd, name, emit_reset=False)


def do_replay(res, rd, replay):
    cases = [{k: c[k] for k in c if k not in ("stuck_step", "stuck_event", "outcome")} for c in vlib.read_ndjson(replay)]
    res.count_cases(cases, lambda c: True)
    res.add_samples(cases)
    res.rule = "replay of " + replay
    run_mtbdd(res, rd, "replay", cases)


def nt(c):
    shared = False
    for s in c["steps"]:
        if s[0] in ("copy", "assign", "apply1", "apply2", "apply3", "project", "rename", "extend", "prefix"):
            shared = True
        elif shared and s[0] in ("destroy", "assign"):
            return True
    return False


def store_histories(tier):
    cfg = "MtbddStoreGen5.cfg" if tier == "thorough" else "MtbddStoreGen.cfg"
    if not os.path.exists(os.path.join(vlib.SPEC, cfg)):
        return []
    hs, _ = vlib.tlc_emit("MtbddStore.tla", cfg, "HIST", cache_deps=["MtbddStore.tla", cfg], tag="mtbddhist")
    return [{"op": "mtbdd", "W": W, "steps": h, "sz": True, "id": ["store", i], "src": "MtbddStore"} for i, h in enumerate(hs)]


STORE_MUTANTS = ["SkipRootIncOnCopy", "SkipChildIncOnSpawn", "AssignNoSelfCheck", "SkipDispose"]


def store_model(res, tier):
    if not os.path.exists(os.path.join(vlib.SPEC, "MtbddStore.cfg")):
        return
    m = vlib.tlc_model("MtbddStore.tla", "MtbddStore7.cfg" if tier == "thorough" else "MtbddStore.cfg", coverage=True)
    res.add_model(m)
    if not m["ok"]:
        raise vlib.Broken("the MtbddStore model violates its invariants (%s)" % m["log"])
    refuted = 0
    for mut in STORE_MUTANTS:
        ks, info = vlib.tlc_emit("MtbddStore.tla", "MtbddStore_%s.cfg" % mut, "KILLER")
        if info and not info["ok"]:
            refuted += 1
    res.extra["model_mutants_refuted"] = "%d/%d" % (refuted, len(STORE_MUTANTS))
    if refuted != len(STORE_MUTANTS):
        raise vlib.Broken("an MtbddStore model mutant is no longer refuted")


def apply_killer_histories(sz):
    """the counterexamples of the Apply model's mutants (spec/killers/apply.ndjson: operation, f, g as 8-entry tables over 3
    variables) as histories: f and g are assembled minterm by minterm (mk + plus), then combined - twice, with another
    operation in between, on one functor object"""
    out = []
    p = os.path.join(vlib.SPEC, "killers", "apply.ndjson")
    if not os.path.exists(p):
        return out
    for n, k in enumerate(vlib.read_ndjson(p)):
        steps = []

        def build(h, tmp, tab):
            steps.append(["const", h, 0])
            for i, v in enumerate(tab):
                if v:
                    steps.append(["mk", tmp, [(i >> b) & 1 for b in range(3)] + [2], v, 0])
                    steps.append(["apply2", 3, "plus", h, tmp])
                    steps.append(["assign", h, 3])
                    steps.append(["destroy", 3])
                    steps.append(["destroy", tmp])
        build(0, 2, k["f"])
        build(1, 2, k["g"])
        other = "max" if k["o"] != "max" else "plus"
        steps += [["apply2", 2, other, 0, 1], ["apply2", 3, k["o"], 0, 1], ["destroy", 2], ["apply2", 2, k["o"], 1, 0], ["destroy", 3],
                  ["apply2", 3, other, 1, 0]]
        out.append({"op": "mtbdd", "W": W, "steps": steps, "sz": sz, "reuse": True, "id": ["k", "Apply", n], "src": "killer: Apply model mutant " + k.get("mut", "")})
    return out


def check_C17(tier, seed, res, replay=None):
    rd = vlib.rundir("C17", tier)
    res.rule = ("seeded random histories over 4 OndriksMTBDD<int> handles and 4 variables: construction from assignments with don't-cares, constants, unary/binary/"
                "ternary apply (sq, inc, zero, plus, max, times, left, ite, plus3 mod 5), Project (max, plus, times over variable subsets), Rename (order-preserving "
                "shifts), ExtendWith, GetMtbddForPrefix, copy, assign (incl. self), destroy; after every step the full 16-entry value table and default value of every "
                "live handle and == / != for every pair of live handles are logged; non-trivial = a release or re-assignment after a sharing step")
    res.assumptions = ["GetValue is asked for total assignments over all 4 variables", "Rename / ExtendWith arguments are generated inside their documented domains"]
    if replay:
        return do_replay(res, rd, replay)
    rng = random.Random(seed)
    n, steps = (20000, 50) if tier == "thorough" else (3000, 30)
    cases = []
    for i in range(n):
        c = gen_mtbdd_history(rng, rng.randint(steps // 2, steps), full=True)
        c["id"] = ["c17", i]
        cases.append(c)
    cases += apply_killer_histories(False)     # exact store sizes are demanded in C18's histories only (Project may leave unreferenced nodes behind)
    res.count_cases(cases, nt)
    res.add_samples([{"steps": c["steps"][:10]} for c in cases if nt(c)][:3])
    run_mtbdd(res, rd, "c17", cases)
    # Layer 2: the binary apply on node structures (memo keyed by node pairs, branching on the higher top variable, reduction,
    # memo cleared per top-level call), every pair of functions of the bound; a second call on the same functor object
    from p_ta import model_with_mutants
    model_with_mutants(res, "Apply.tla", "Apply3v.cfg" if tier == "thorough" else "Apply3v_q.cfg", ["NoReduce", "KeyFirstOnly", "BranchLower", "SwapSecond"] if tier == "thorough" else [], "Apply")
    model_with_mutants(res, "Apply.tla", "Apply2.cfg" if tier == "thorough" else "Apply2_q.cfg", ["KeepMemo"] if tier == "thorough" else [], "Apply")
    if tier == "thorough":
        model_with_mutants(res, "Apply.tla", "Apply.cfg", [], "Apply")


def check_C18(tier, seed, res, replay=None):
    rd = vlib.rundir("C18", tier)
    res.rule = ("histories restricted to the operations C18 lists (construct, constant, copy, assign incl. self, apply1/2/3, destroy): TLC-generated from the MtbddStore "
                "reference-count model (discovery path of every model state) plus seeded random ones; after every step value tables of all live handles AND the sizes "
                "of the leaf / internal unique tables (VATA_VERIF hook) are logged and must equal the node counts of the reduced diagrams of the live functions; "
                "at the end of every history the store must be back at its base size; non-trivial = a release or re-assignment after a sharing step")
    res.assumptions = ["store sizes are read through the guarded hook OndriksMTBDD<T>::Verif{Leaf,Internal}StoreSize"]
    if replay:
        return do_replay(res, rd, replay)
    rng = random.Random(seed)
    n, steps = (5000, 50) if tier == "thorough" else (1000, 30)
    cases = []
    for i in range(n):
        c = gen_mtbdd_history(rng, rng.randint(steps // 2, steps), full=False)
        c["id"] = ["c18", i]
        cases.append(c)
    for k in load_killer_hists("MtbddStore.ndjson"):
        cases.append(k)
    cases += store_histories(tier)
    cases += apply_killer_histories(True)
    res.count_cases(cases, nt)
    res.add_samples([{"steps": c["steps"][:10]} for c in cases if nt(c)][:3])
    run_mtbdd(res, rd, "c18", cases)
    store_model(res, tier)
