#!/usr/bin/env python3
# usage: mkagent.py <wave tag> <focus file> <prop ids...>  - creates /tmp/wt<tag>_<id> worktrees, /tmp/seed<tag>_<id> dirs and /tmp/agent_prompt<tag>_<id>.txt
import json, subprocess, sys, os
tag, focusf = sys.argv[1], sys.argv[2]
props = {}
for line in open('/verif/properties.jsonl'):
    d = json.loads(line); props[d['id']] = d
tmpl = open('/verif/bin/agent_prompt.tmpl').read()
focus = open(focusf).read().strip()
for pid in sys.argv[3:]:
    d = props[pid]
    block = "%s\n\n%s\n\nQuantified over: %s\n" % (d['title'], d['statement'], d['quantifier']['text'])
    wt, sd = "/tmp/wt%s_%s" % (tag, pid), "/tmp/seed%s_%s" % (tag, pid)
    t = tmpl.replace("@BLOCK@", block).replace("@FOCUS@", focus).replace("@WT@", wt).replace("@SD@", sd)
    open('/tmp/agent_prompt%s_%s.txt' % (tag, pid), 'w').write(t)
    subprocess.run(["git", "-C", "/repo", "worktree", "add", "--detach", wt, "HEAD"], capture_output=True)
    os.makedirs(sd, exist_ok=True)
    print(pid, wt, sd)
