# Shared machinery of /verif/bin/check: build, TLC invocations (generate / validate / model-check),
# driver invocation, known-findings filter, evidence writer.
import glob
import hashlib
import json
import os
import random
import re
import shutil
import subprocess
import sys
import time

VERIF = os.path.dirname(os.path.dirname(os.path.abspath(__file__)))
REPO = os.environ.get("VERIF_REPO", "/repo")
OUT = os.path.join(VERIF, "out")
SPEC = os.path.join(VERIF, "spec")
TLA_CP = "/opt/veriftools/tla/tla2tools.jar:/opt/veriftools/tla/CommunityModules-deps.jar"
NCPU = 16


class Broken(Exception):
    """The machinery (not the library) failed: exit 2, never a VIOLATION."""


def log(*a):
    print("[check]", *a, file=sys.stderr, flush=True)


def sh(cmd, **kw):
    return subprocess.run(cmd, shell=isinstance(cmd, str), **kw)


# --------------------------------------------------------------------------- build
def build(san=False):
    t0 = time.time()
    r = sh([os.path.join(VERIF, "bin", "build.sh")] + (["--san"] if san else []),
           stdout=subprocess.PIPE, stderr=subprocess.STDOUT, text=True)
    if r.returncode != 0:
        print(r.stdout)
        raise Broken("build failed (libvata from %s or the driver does not compile)" % REPO)
    log("build ok %.1fs" % (time.time() - t0))


def vdrive_bin(san=False):
    return os.path.join(OUT, "bin-san" if san else "bin", "vdrive")


# --------------------------------------------------------------------------- files
def rundir(prop, tier):
    d = os.path.join(OUT, "run", "%s-%s" % (prop, tier))
    shutil.rmtree(d, ignore_errors=True)
    os.makedirs(d)
    return d


def write_ndjson(path, items):
    with open(path, "w") as f:
        for it in items:
            f.write(json.dumps(it, separators=(",", ":")) + "\n")


def read_ndjson(path):
    res = []
    with open(path) as f:
        for line in f:
            line = line.strip()
            if line:
                res.append(json.loads(line))
    return res


def spec_hash(files, extra=""):
    h = hashlib.sha256()
    for fn in files:
        with open(os.path.join(SPEC, fn), "rb") as f:
            h.update(f.read())
    h.update(extra.encode())
    return h.hexdigest()[:16]


# --------------------------------------------------------------------------- TLC
def tlc_cmd(module, cfg, workers=1, heap="3g", extra=None, metadir=None, simulate=None):
    cmd = ["java", "-XX:+UseParallelGC", "-Xmx" + heap, "-Xss16m", "-cp", TLA_CP, "tlc2.TLC",
           "-workers", str(workers), "-metadir", metadir, "-noGenerateSpecTE", "-config", cfg]
    if extra:
        cmd += extra
    cmd.append(module)
    return cmd


_meta_counter = [0]


def new_metadir():
    _meta_counter[0] += 1
    d = os.path.join(OUT, "tlc", "m%d-%d" % (os.getpid(), _meta_counter[0]))
    shutil.rmtree(d, ignore_errors=True)
    os.makedirs(d, exist_ok=True)
    return d


def run_parallel(jobs, maxpar=NCPU):
    """jobs: list of (cmd, env, logfile, timeout). Returns list of return codes (None = timeout)."""
    procs = []
    results = [None] * len(jobs)
    pending = list(enumerate(jobs))
    running = []
    while pending or running:
        while pending and len(running) < maxpar:
            i, (cmd, env, logfile, tmo) = pending.pop(0)
            e = dict(os.environ)
            e.update(env)
            f = open(logfile, "w")
            p = subprocess.Popen(cmd, cwd=SPEC, env=e, stdout=f, stderr=subprocess.STDOUT)
            running.append((i, p, f, time.time() + tmo))
        time.sleep(0.05)
        for item in list(running):
            i, p, f, deadline = item
            rc = p.poll()
            if rc is not None:
                results[i] = rc
                f.close()
                running.remove(item)
            elif time.time() > deadline:
                p.kill()
                p.wait()
                results[i] = None
                f.close()
                running.remove(item)
    return results


def tlc_generate(genmodule, envs, deps, tag, timeout=900):
    """Run one TLC generator process per env (each writes env['GEN_OUT']); cached by spec hash.
    Returns the list of output files."""
    key = spec_hash(deps, json.dumps(envs, sort_keys=True))
    cdir = os.path.join(OUT, "cases", "%s-%s" % (tag, key))
    done = os.path.join(cdir, "DONE")
    outs = [os.path.join(cdir, "shard-%d.ndjson" % i) for i in range(len(envs))]
    if os.path.exists(done):
        return outs
    shutil.rmtree(cdir, ignore_errors=True)
    os.makedirs(cdir)
    jobs = []
    metas = []
    for i, env in enumerate(envs):
        e = dict(env)
        e["GEN_OUT"] = outs[i]
        md = new_metadir()
        metas.append(md)
        cfg = genmodule.replace(".tla", ".cfg")
        jobs.append((tlc_cmd(genmodule, cfg, metadir=md), e, os.path.join(cdir, "gen-%d.log" % i), timeout))
    t0 = time.time()
    rcs = run_parallel(jobs)
    for md in metas:
        shutil.rmtree(md, ignore_errors=True)
    for i, rc in enumerate(rcs):
        if rc != 0 or not os.path.exists(outs[i]):
            tail = open(os.path.join(cdir, "gen-%d.log" % i)).read()[-2000:]
            raise Broken("TLC generator %s shard %d failed (rc=%s)\n%s" % (genmodule, i, rc, tail))
    open(done, "w").write("ok")
    log("generated %s (%d shards) %.1fs" % (tag, len(envs), time.time() - t0))
    return outs


VFAIL_RE = re.compile(r'^<<"VFAIL", (\d+), (.*)>>\s*$')
VFAIL_ML_RE = re.compile(r'<<\s*"VFAIL",\s*(\d+),\s*(\{.*?\})\s*>>', re.S)
STATS_RE = re.compile(r'^(\d+) states generated, (\d+) distinct states found')


def tlc_validate(module, shard_files, timeout=1200, heap="3g", env_extra=None):
    """Validate recorded events (one TLC process per shard file, independent events).
    Returns dict(states, transitions, events, fails=[(file, line, reasons, event)])."""
    cfg = module.replace(".tla", ".cfg")
    jobs = []
    metas = []
    logs = []
    files = [f for f in shard_files if os.path.exists(f) and os.path.getsize(f) > 0]
    for f in files:
        md = new_metadir()
        metas.append(md)
        lg = f + ".tlc.log"
        logs.append(lg)
        env = {"TRACE": f}
        if env_extra:
            env.update(env_extra)
        jobs.append((tlc_cmd(module, cfg, extra=["-continue"], metadir=md, heap=heap), env, lg, timeout))
    t0 = time.time()
    rcs = run_parallel(jobs)
    for md in metas:
        shutil.rmtree(md, ignore_errors=True)
    total_states = 0
    total_gen = 0
    fails = []
    nevents = 0
    for f, lg, rc in zip(files, logs, rcs):
        txt = open(lg).read()
        nlines = sum(1 for _ in open(f))
        nevents += nlines
        m = None
        for line in txt.splitlines():
            mm = STATS_RE.match(line)
            if mm:
                m = mm
        if rc is None:
            raise Broken("TLC validation of %s timed out" % f)
        if m is None or "Model checking completed" not in txt:
            raise Broken("TLC validation of %s did not complete (rc=%s)\n%s" % (f, rc, txt[-3000:]))
        if int(m.group(2)) != nlines:
            raise Broken("TLC judged %s events of %d in %s" % (m.group(2), nlines, f))
        total_gen += int(m.group(1))
        total_states += int(m.group(2))
        flines = None
        # TLC pretty-prints a long tuple over several lines: match across line breaks
        for mm in VFAIL_ML_RE.finditer(txt):
            if flines is None:
                flines = open(f).read().splitlines()
            ln = int(mm.group(1))
            reasons = sorted(set(re.findall(r'"([^"]*)"', mm.group(2))))
            fails.append((f, ln, reasons, json.loads(flines[ln - 1])))
        nviol = len(re.findall(r"Error: Invariant EventOK is violated", txt))
        nfound = sum(1 for x in fails if x[0] == f)
        if nviol != nfound:
            raise Broken("TLC reported %d rejected events in %s but %d VFAIL records were parsed" % (nviol, f, nfound))
    log("validated %d events with %s in %.1fs: %d rejected" % (nevents, module, time.time() - t0, len(fails)))
    return {"states": total_states, "transitions": total_gen, "events": nevents, "fails": fails}


def tlc_model(module, cfg, workers=NCPU, heap="12g", timeout=1500, env=None, extra=None, coverage=False):
    """Model-check a Layer-2 module. Returns dict(states, transitions, ok, violated, log, coverage)."""
    md = new_metadir()
    lg = os.path.join(OUT, "tlc", "%s-%s.log" % (module.replace(".tla", ""), cfg.replace(".cfg", "")))
    ex = list(extra or [])
    if coverage:
        ex += ["-coverage", "1"]
    t0 = time.time()
    rcs = run_parallel([(tlc_cmd(module, cfg, workers=workers, heap=heap, extra=ex, metadir=md), env or {}, lg, timeout)])
    shutil.rmtree(md, ignore_errors=True)
    txt = open(lg).read()
    states = gen = 0
    for line in txt.splitlines():
        mm = STATS_RE.match(line)
        if mm:
            gen, states = int(mm.group(1)), int(mm.group(2))
    violated = re.findall(r"Error: Invariant (\S+) is violated", txt) + \
        re.findall(r"Error: Temporal properties were violated", txt) + \
        re.findall(r"Error: Action property (\S+) is violated", txt)
    if rcs[0] is None:
        raise Broken("TLC model check %s/%s timed out after %ds" % (module, cfg, timeout))
    completed = "Model checking completed" in txt or "Finished in" in txt
    if not completed or (rcs[0] != 0 and not violated):
        raise Broken("TLC model check %s/%s failed (rc=%s)\n%s" % (module, cfg, rcs[0], txt[-3000:]))
    cov = {}
    if coverage:
        for mm in re.finditer(r"^<(\w+) line \d+, col \d+ to line \d+, col \d+ of module \w+>: (\d+):(\d+)", txt, re.M):
            cov[mm.group(1)] = [int(mm.group(2)), int(mm.group(3))]
    log("model %s/%s: %d distinct states, %d generated, %.1fs%s" % (module, cfg, states, gen, time.time() - t0,
                                                                   (" VIOLATED " + str(violated)) if violated else ""))
    return {"module": module, "cfg": cfg, "states": states, "transitions": gen, "ok": not violated,
            "violated": violated, "log": lg, "coverage": cov, "wall_s": round(time.time() - t0, 1)}


def tlc_sharded_check(module, cfg, total_shards, run_shards, env_extra=None, timeout=1500, heap="3g"):
    """Run an invariant check that is sharded by environment (CHK_SHARD / CHK_NSHARDS): one TLC process per shard.
    Returns the dict tlc_model returns (summed)."""
    jobs, metas, logs = [], [], []
    for s in run_shards:
        md = new_metadir()
        metas.append(md)
        lg = os.path.join(OUT, "tlc", "%s-shard%d.log" % (module.replace(".tla", ""), s))
        logs.append(lg)
        env = {"CHK_SHARD": str(s), "CHK_NSHARDS": str(total_shards)}
        if env_extra:
            env.update(env_extra)
        jobs.append((tlc_cmd(module, cfg, metadir=md, heap=heap), env, lg, timeout))
    t0 = time.time()
    rcs = run_parallel(jobs)
    for md in metas:
        shutil.rmtree(md, ignore_errors=True)
    states = gen = 0
    violated = []
    for lg, rc in zip(logs, rcs):
        txt = open(lg).read()
        if rc is None:
            raise Broken("TLC %s timed out (%s)" % (module, lg))
        violated += re.findall(r"Error: Invariant (\S+) is violated", txt)
        m = None
        for line in txt.splitlines():
            mm = STATS_RE.match(line)
            if mm:
                m = mm
        if m is None or (rc != 0 and not violated):
            raise Broken("TLC %s failed (rc=%s)\n%s" % (module, rc, txt[-2000:]))
        gen += int(m.group(1))
        states += int(m.group(2))
    log("sharded check %s: %d/%d shards, %d states, %.1fs%s" % (module, len(run_shards), total_shards, states, time.time() - t0,
                                                             " VIOLATED %s" % violated if violated else ""))
    return {"module": module, "cfg": "%s [%d of %d shards]" % (cfg, len(run_shards), total_shards), "states": states, "transitions": gen,
            "ok": not violated, "violated": violated, "coverage": {}, "wall_s": round(time.time() - t0, 1), "log": logs[0]}


def tlc_emit(module, cfg, marker, workers=NCPU, heap="8g", timeout=900, cache_deps=None, tag=None):
    """Run TLC and collect the JSON payloads printed as <<"MARKER", "<json>">> (behaviours generated from a Layer-2 model).
    With cache_deps the result is cached under out/cases keyed by the hash of those spec files."""
    cfile = None
    if cache_deps:
        key = spec_hash(cache_deps, cfg)
        cfile = os.path.join(OUT, "cases", "%s-%s.ndjson" % (tag or cfg, key))
        if os.path.exists(cfile):
            return read_ndjson(cfile), None
    md = new_metadir()
    lg = os.path.join(OUT, "tlc", "%s-%s.emit.log" % (module.replace(".tla", ""), cfg.replace(".cfg", "")))
    t0 = time.time()
    rcs = run_parallel([(tlc_cmd(module, cfg, workers=workers, heap=heap, metadir=md), {}, lg, timeout)])
    shutil.rmtree(md, ignore_errors=True)
    if rcs[0] is None:
        raise Broken("TLC %s/%s timed out" % (module, cfg))
    txt = open(lg).read()
    out = []
    pat = re.compile(r'^<<"%s", "(.*)">>\s*$' % marker)
    for line in txt.splitlines():
        m = pat.match(line)
        if m:
            out.append(json.loads(json.loads('"' + m.group(1) + '"')))
    states = gen = 0
    for line in txt.splitlines():
        mm = STATS_RE.match(line)
        if mm:
            gen, states = int(mm.group(1)), int(mm.group(2))
    violated = re.findall(r"Error: Invariant (\S+) is violated", txt) + re.findall(r"Error: Temporal properties were violated", txt) \
        + re.findall(r"Error: Temporal property (\S+) was violated", txt)
    if "Finished in" not in txt:
        raise Broken("TLC %s/%s did not finish (rc=%s)\n%s" % (module, cfg, rcs[0], txt[-2000:]))
    log("emit %s/%s: %d payloads, %d distinct states, %.1fs" % (module, cfg, len(out), states, time.time() - t0))
    info = {"module": module, "cfg": cfg, "states": states, "transitions": gen, "ok": not violated, "violated": violated,
            "coverage": {}, "wall_s": round(time.time() - t0, 1)}
    if cfile and not violated:
        os.makedirs(os.path.dirname(cfile), exist_ok=True)
        write_ndjson(cfile, out)
    return out, info


# --------------------------------------------------------------------------- driver
def drive(cases_file, out_prefix, workers=NCPU, timeout_ms=5000, san=False, wall=3000):
    for f in glob.glob(out_prefix + ".*.ndjson"):
        os.remove(f)
    env = dict(os.environ)
    if san:
        env["ASAN_OPTIONS"] = "detect_leaks=0:abort_on_error=0:exitcode=86"
        env["UBSAN_OPTIONS"] = "halt_on_error=1:exitcode=87"
    t0 = time.time()
    try:
        r = sh([vdrive_bin(san), "run", cases_file, out_prefix, "--workers", str(workers), "--timeout-ms", str(timeout_ms)],
               stdout=subprocess.PIPE, stderr=subprocess.PIPE, text=True, timeout=wall, env=env)
    except subprocess.TimeoutExpired:
        raise Broken("driver exceeded %ds wall time" % wall)
    if r.returncode != 0:
        raise Broken("driver failed: " + r.stderr[-2000:])
    shards = sorted(glob.glob(out_prefix + ".*.ndjson"))
    log("drove %s in %.1fs: %s" % (os.path.basename(cases_file), time.time() - t0, r.stderr.strip()))
    return shards


# --------------------------------------------------------------------------- known findings
def load_findings():
    p = os.path.join(VERIF, "known_findings.json")
    if not os.path.exists(p):
        return []
    return json.load(open(p)).get("findings", [])


def match_finding(prop, op, reasons, event=None):
    """A violation is a known finding iff an entry with status 'known' has the same property and op and
    every rejection reason is listed in the entry (optionally narrowed by 'where' key/values on the event)."""
    for f in load_findings():
        if f.get("status") != "known" or f.get("property") != prop:
            continue
        m = f.get("match", {})
        if m.get("op") != op:
            continue
        if not set(reasons) <= set(m.get("reasons", [])):
            continue
        ok = True
        for k, v in m.get("where", {}).items():
            if event is None or event.get(k) != v:
                ok = False
        if ok:
            return f
    return None


# --------------------------------------------------------------------------- result / evidence
class Result:
    def __init__(self, prop, tier, seed, level="model_checking"):
        self.prop, self.tier, self.seed, self.level = prop, tier, seed, level
        self.t0 = time.time()
        self.states = 0
        self.transitions = 0
        self.traces = 0
        self.evaluations = 0
        self.hashes = set()
        self.samples = []
        self.models = []
        self.violations = []      # (replay path, description)
        self.known = []           # (finding id, description)
        self.rule = ""
        self.extra = {}
        self.assumptions = []
        self.checker_cmds = []

    def add_validation(self, v):
        self.states += v["states"]
        self.transitions += v["transitions"]
        self.traces += v["events"]

    def add_model(self, m):
        self.states += m["states"]
        self.transitions += m["transitions"]
        self.models.append({k: m[k] for k in ("module", "cfg", "states", "transitions", "ok", "violated", "coverage", "wall_s")})

    def count_cases(self, cases, nontrivial, key=None):
        """evaluations += len(cases); distinct non-trivial cases by content hash."""
        for c in cases:
            self.evaluations += 1
            if nontrivial(c):
                k = dict(c)
                k.pop("id", None)
                k.pop("src", None)
                self.hashes.add(hashlib.md5(json.dumps(k, sort_keys=True).encode()).digest())

    def add_samples(self, items, n=3):
        for it in items[:n]:
            if len(self.samples) < 12:
                self.samples.append(it)

    def report_fails(self, fails, viol_dir):
        """fails from tlc_validate; writes replay files; splits into violations / known findings."""
        os.makedirs(viol_dir, exist_ok=True)
        for (f, ln, reasons, ev) in fails:
            op = ev.get("op", "?")
            kf = match_finding(self.prop, op, reasons, ev)
            desc = "%s %s %s" % (op, ",".join(reasons), json.dumps({k: ev[k] for k in ev if k not in ("res",)}, separators=(",", ":"))[:300])
            if kf:
                self.known.append((kf["id"], desc))
                continue
            case = {k: ev[k] for k in ev if k not in ("res", "outcome", "what", "stage")}
            h = hashlib.md5(json.dumps(case, sort_keys=True).encode()).hexdigest()[:10]
            path = os.path.join(viol_dir, "%s-%s.ndjson" % (self.prop, h))
            if len(self.violations) < 40:          # every violation is counted, the first 40 get replay files
                with open(path, "w") as out:
                    out.write(json.dumps(case, separators=(",", ":")) + "\n")
                with open(path + ".observed", "w") as out:
                    out.write(json.dumps({"reasons": reasons, "event": ev}, indent=1) + "\n")
            else:
                path = self.violations[0][0]
            self.violations.append((path, desc))

    def finish(self):
        wall = round(time.time() - self.t0, 1)
        cov = {
            "states": self.states, "transitions": self.transitions,
            "traces_validated_against_impl": self.traces,
            "evaluations": self.evaluations, "distinct_nontrivial": len(self.hashes),
            "rule": self.rule, "samples": self.samples if self.samples else ["(none)"],
            "models": self.models, "checker_cmd": "; ".join(self.checker_cmds),
            "known_findings_seen": len(self.known),
        }
        cov.update(self.extra)
        ev = {"property_id": self.prop, "tier": self.tier, "seed": self.seed, "level": self.level,
              "coverage": cov, "assumptions": self.assumptions, "wall_s": wall, "violations": len(self.violations)}
        os.makedirs(os.path.join(VERIF, "evidence"), exist_ok=True)
        with open(os.path.join(VERIF, "evidence", self.prop + ".json"), "w") as f:
            json.dump(ev, f, indent=1)
            f.write("\n")
        seen = set()
        for fid, desc in self.known:
            if fid not in seen:
                seen.add(fid)
                n = sum(1 for k in self.known if k[0] == fid)
                print("KNOWN-FINDING: property=%s %s (%d occurrences, e.g. %s)" % (self.prop, fid, n, desc[:200]))
        shown = 0
        for path, desc in self.violations:
            if shown < 20:
                print("VIOLATION property=%s replay=%s" % (self.prop, path))
                print("  " + desc[:400])
                shown += 1
        if len(self.violations) > shown:
            print("  ... %d more violations (see %s)" % (len(self.violations) - shown, os.path.dirname(self.violations[0][0])))
        log("%s %s: evaluations=%d distinct_nontrivial=%d states=%d traces=%d violations=%d known=%d wall=%.1fs" % (
            self.prop, self.tier, self.evaluations, len(self.hashes), self.states, self.traces, len(self.violations), len(self.known), wall))
        return 1 if self.violations else 0


# --------------------------------------------------------------------------- small automata helpers (evidence only)
def ta_states(a):
    s = set(a.get("fin", []))
    for r in a.get("rules", []):
        s.add(r[2])
        s.update(r[1])
    return s


def ta_productive(a):
    p = set()
    ch = True
    while ch:
        ch = False
        for r in a.get("rules", []):
            if r[2] not in p and all(k in p for k in r[1]):
                p.add(r[2])
                ch = True
    return p


def ta_nonempty(a):
    return bool(ta_productive(a) & set(a.get("fin", [])))


def ta_trim(a):
    """the trimmed automaton (evidence / input shaping only; the oracle is TA!Trim in TLC)"""
    p = ta_productive(a)
    rules = [r for r in a.get("rules", []) if r[2] in p and all(k in p for k in r[1])]
    reach = set(q for q in a.get("fin", []) if q in p)
    ch = True
    while ch:
        ch = False
        for r in rules:
            if r[2] in reach:
                for k in r[1]:
                    if k not in reach:
                        reach.add(k)
                        ch = True
    return {"fin": [q for q in a.get("fin", []) if q in reach], "rules": [r for r in rules if r[2] in reach]}


def ta_is_trim(a):
    """every state productive and reachable top-down from a final state, every state occurs in a rule"""
    st = ta_states(a)
    if not st <= ta_productive(a):
        return False
    reach = set(a.get("fin", []))
    ch = True
    while ch:
        ch = False
        for r in a.get("rules", []):
            if r[2] in reach:
                for k in r[1]:
                    if k not in reach:
                        reach.add(k)
                        ch = True
    return st <= reach


def ta_rename(a, f):
    return {"fin": [f[q] for q in a.get("fin", [])],
            "rules": [[r[0], [f[k] for k in r[1]], f[r[2]]] for r in a.get("rules", [])]}


def ta_syms(*auts):
    res = []
    for a in auts:
        for r in a.get("rules", []):
            s = [r[0], len(r[1])]
            if s not in res:
                res.append(s)
    return res
