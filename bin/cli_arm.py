# CLI arm: the same Layer-1 contracts, observed through the command-line tool `vata` (built from /repo's working tree,
# cli/operations.hh prepares operands and simulations there). Cases are written as Timbuk files, `vata` is run with the
# option words of each selection, its output is turned into the driver's event format and TLC judges it with the same
# trace specification.
import concurrent.futures
import os
import subprocess

import vlib

VATA = os.path.join(vlib.OUT, "build", "cli", "vata")

SEL_OPTS = ["dir=up,sim=no", "dir=up,sim=yes", "dir=down,rec=no,sim=no", "dir=down,rec=no,sim=yes",
            "dir=down,rec=yes,sim=no", "dir=down,rec=yes,sim=yes", "dir=down,rec=yes,optC=yes,sim=no", "dir=down,rec=yes,optC=yes,sim=yes"]


# state names: q<N>, or ("sfx") names that carry the suffixes _1 / _2 the tool itself appends when it renames the operands of a
# union (a renaming that is not injective on such names merges two states in the printed result)
SFX_NAMES = ["s", "s_1", "s_2", "s_1_1", "s_1_2", "s_2_1", "s_2_2", "t", "t_1", "t_2", "s_1_1_1", "t_2_2"]


LONG_PREFIX = "a_state_with_a_rather_long_name_shared_by_all_"      # 47 characters: names differ only after position 40


def sname(q, sfx=False):
    if sfx == "long":
        return LONG_PREFIX + str(q)
    if sfx and 0 <= q < len(SFX_NAMES):
        return SFX_NAMES[q]
    return "q%d" % q


import threading
_tls = threading.local()
LEAF_STYLE = [0]      # (default) how nullary rules are spelt in the files written for the tool: 0 "a", 1 "a()", 2 "a( )" (all legal Timbuk)


def ta_text(a, name="A", sfx=False):
    syms = []
    for r in a["rules"]:
        s = "%s:%d" % (r[0], len(r[1]))
        if s not in syms:
            syms.append(s)
    st = set(a["fin"])
    for r in a["rules"]:
        st.add(r[2])
        st.update(r[1])
    lines = ["Ops " + " ".join(syms), "", "Automaton " + name, "States " + " ".join(sname(q, sfx) for q in sorted(st)),
             "Final States " + " ".join(sname(q, sfx) for q in a["fin"]), "Transitions"]
    for r in a["rules"]:
        leaf = r[0] + ["", "()", "( )"][getattr(_tls, "leaf", 0) % 3]
        lines.append((leaf if not r[1] else "%s(%s)" % (r[0], ",".join(sname(k, sfx) for k in r[1]))) + " -> " + sname(r[2], sfx))
    return "\n".join(lines) + "\n"


def nfa_text(a, name="A", sfx=False):
    lines = ["Ops x:0 " + " ".join(sorted(set("%s:1" % e[1] for e in a["delta"]))), "", "Automaton " + name,
             "States " + " ".join(sname(q, sfx) for q in sorted(set(a["start"]) | set(a["fin"]) | set(e[0] for e in a["delta"]) | set(e[2] for e in a["delta"]))),
             "Final States " + " ".join(sname(q, sfx) for q in a["fin"]), "Transitions"]
    for q in a["start"]:
        lines.append("x -> " + sname(q, sfx))
    for e in a["delta"]:
        lines.append("%s(%s) -> %s" % (e[1], sname(e[0], sfx), sname(e[2], sfx)))
    return "\n".join(lines) + "\n"


def put(path, txt, i):
    """write an input file for the tool; every fifth case gets files WITHOUT a trailing newline (legal text)"""
    if i % 5 == 0 and txt.endswith("\n"):
        txt = txt[:-1]
    open(path, "w").write(txt)


def run_vata(args, timeout=20):
    try:
        r = subprocess.run([VATA] + args, stdout=subprocess.PIPE, stderr=subprocess.PIPE, text=True, timeout=timeout)
    except subprocess.TimeoutExpired:
        return None, "hang"
    if r.returncode < 0:
        return None, "crash:signal %d" % (-r.returncode)
    return r.stdout, ("ok" if r.returncode == 0 else "exit%d" % r.returncode)


def verdict(out, status):
    if status in ("hang",) or status.startswith("crash"):
        return "X:" + status
    if out is None:
        return "X:" + status
    t = out.strip().splitlines()
    if t and t[-1].strip() in ("0", "1"):
        return "T" if t[-1].strip() == "1" else "F"
    return "X:" + status


def incl_events(cases, rd, repr_="expl"):
    """cases: incl cases {A,B}; returns events in the driver's format with the verdicts the CLI printed"""
    d = os.path.join(rd, "cli")
    os.makedirs(d, exist_ok=True)

    def one(ic):
        i, c = ic
        fa, fb = os.path.join(d, "a%d.txt" % i), os.path.join(d, "b%d.txt" % i)
        put(fa, ta_text(c["A"], "A"), i)
        put(fb, ta_text(c["B"], "B"), i)
        v = []
        pre = [["-p"], ["-s"], [], [], [], []][i % 6] if repr_ == "expl" else []
        for o in SEL_OPTS:
            out, st = run_vata(["-r", repr_] + pre + ["-o", o, "incl", fa, fb])
            v.append(verdict(out, st))
        os.remove(fa)
        os.remove(fb)
        return {"id": c.get("id"), "op": "incl", "A": c["A"], "B": c["B"], "src": "cli:" + str(c.get("src")), "outcome": "ok",
                "res": {"v": v, "A_after": c["A"], "B_after": c["B"]}}
    with concurrent.futures.ThreadPoolExecutor(max_workers=vlib.NCPU) as ex:
        return list(ex.map(one, enumerate(cases)))


def faincl_events(cases, rd):
    d = os.path.join(rd, "cli")
    os.makedirs(d, exist_ok=True)
    opts = {"anti": "alg=antichains", "cd": "alg=congr,order=depth", "cb": "alg=congr,order=breadth"}

    def one(ic):
        i, c = ic
        fa, fb = os.path.join(d, "fa%d.txt" % i), os.path.join(d, "fb%d.txt" % i)
        put(fa, nfa_text(c["A"], "A"), i)
        put(fb, nfa_text(c["B"], "B"), i)
        out, st = run_vata(["-r", "expl_fa", "-o", opts[c["sel"]], "incl", fa, fb], timeout=10)
        os.remove(fa)
        os.remove(fb)
        ev = {"id": c.get("id"), "op": "faincl", "sel": c["sel"], "A": c["A"], "B": c["B"], "src": "cli:" + str(c.get("src"))}
        if st == "hang" or st.startswith("crash"):
            ev["outcome"] = st
        else:
            ev["outcome"] = "ok"
            ev["res"] = {"v": verdict(out, st), "A_after": c["A"], "B_after": c["B"]}
        return ev
    with concurrent.futures.ThreadPoolExecutor(max_workers=vlib.NCPU) as ex:
        return list(ex.map(one, enumerate(cases)))


def sim_events(cases, rd):
    """cases: sim cases {A, n, dirs}; `vata sim` prints 'i: name, ...' and the set of related index pairs"""
    import re
    d = os.path.join(rd, "cli")
    os.makedirs(d, exist_ok=True)

    def one(ic):
        i, c = ic
        fa = os.path.join(d, "s%d.txt" % i)
        put(fa, ta_text(c["A"], "A"), i)
        res = {"A_after": c["A"]}
        outcome = "ok"
        for key in c.get("dirs", ["down"]):
            out, st = run_vata(["-r", "expl", "-o", "dir=" + key, "sim", fa])
            if st != "ok" or out is None:
                outcome = st if (st == "hang" or st.startswith("crash")) else "ok"
                res[key] = "exception:" + st
                continue
            lines = out.strip().splitlines()
            names = {}
            for m in re.finditer(r"(\d+): q(\d+)", lines[0] if lines else ""):
                names[int(m.group(1))] = int(m.group(2))
            n = c["n"]
            mat = [[0] * n for _ in range(n)]
            for m in re.finditer(r"\((\d+), (\d+)\)", lines[-1] if lines else ""):
                a, b = int(m.group(1)), int(m.group(2))
                if a in names and b in names and names[a] < n and names[b] < n:
                    mat[names[a]][names[b]] = 1
            res[key] = mat
        os.remove(fa)
        ev = {"id": c.get("id"), "op": "sim", "A": c["A"], "n": c["n"], "src": "cli:" + str(c.get("src")), "outcome": outcome}
        if outcome == "ok":
            ev["res"] = res
        return ev
    with concurrent.futures.ThreadPoolExecutor(max_workers=vlib.NCPU) as ex:
        return list(ex.map(one, enumerate(cases)))


def judge(res, rd, name, events, module):
    if not events:
        return
    ef = os.path.join(rd, name + ".cli.0.ndjson")
    vlib.write_ndjson(ef, events)
    v = vlib.tlc_validate(module, [ef])
    res.add_validation(v)
    res.report_fails(v["fails"], os.path.join(vlib.OUT, "viol"))
    res.extra["cli_events"] = res.extra.get("cli_events", 0) + len(events)
    res.checker_cmds.append("vata (CLI) on %d cases -> %s" % (len(events), module))


# ----------------------------------------------------------------------------- automaton-returning commands
def parse_timbuk_out(txt):
    """the CLI's Timbuk output -> {"fin": [names], "rules": [[sym, [kids], parent]]} with state NAMES as strings"""
    fin, rules = [], []
    in_tr = False
    for line in txt.splitlines():
        t = line.strip()
        if not t:
            continue
        if not in_tr:
            if t.startswith("Final States"):
                fin = t[len("Final States"):].split()
            elif t.startswith("Transitions"):
                in_tr = True
            continue
        if "->" not in t:
            raise ValueError("unexpected line in CLI output: " + t)
        lhs, rhs = t.rsplit("->", 1)
        lhs, rhs = lhs.strip(), rhs.strip()
        if "(" in lhs:
            sym = lhs[:lhs.index("(")].strip()
            inner = lhs[lhs.index("(") + 1:lhs.rindex(")")]
            kids = [k.strip() for k in inner.split(",")] if inner.strip() else []
        else:
            sym, kids = lhs, []
        rules.append([sym, kids, rhs])
    return {"fin": fin, "rules": rules}


def to_nfa(a):
    start = sorted(set(r[2] for r in a["rules"] if not r[1]))
    return {"start": start, "fin": a["fin"], "delta": [[r[1][0], r[0], r[2]] for r in a["rules"] if len(r[1]) == 1]}


def named(a):
    """the operand as the CLI sees it: state names q<N>"""
    return {"fin": ["q%d" % q for q in a["fin"]], "rules": [[r[0], ["q%d" % k for k in r[1]], "q%d" % r[2]] for r in a["rules"]]}


def ta_op_events(cases, rd, repr_="expl"):
    """cases: {"cmd": union|isect|load-p|load-s|red|witness|cmpl, "A", ["B"], ["syms"]} -> events in the driver's format
    (union / isect / trim2 / reduce / witness / compl) with the result automaton parsed from the CLI's output"""
    d = os.path.join(rd, "cli")
    os.makedirs(d, exist_ok=True)

    def one(ic):
        i, c = ic
        cmd = c["cmd"]
        fa = os.path.join(d, "oa%d.txt" % i)
        sfx = (True if i % 3 == 0 else ("long" if i % 3 == 1 and i % 2 == 0 else False))
        _tls.leaf = [0, 0, 1, 2, 0, 2, 1][i % 7]       # nullary rules spelt "a", "a()" or "a( )" in the files of this case
        txt = ta_text(c["A"], "A", sfx)
        if cmd == "cmpl" and c.get("syms"):
            # the alphabet of the complement is what the Ops line declares (incl. unused symbols)
            lines = txt.splitlines()
            lines[0] = "Ops " + " ".join("%s:%d" % (s[0], s[1]) for s in c["syms"])
            txt = "\n".join(lines) + "\n"
        put(fa, txt, i)
        files = [fa]
        if "B" in c and cmd in ("union", "isect"):
            fb = os.path.join(d, "ob%d.txt" % i)
            put(fb, ta_text(c["B"], "B", sfx), i)
            files.append(fb)
        args = ["-r", repr_]
        if cmd == "load-p":
            args += ["-p", "load"]
        elif cmd == "load-s":
            args += ["-s", "load"]
        else:
            args += [cmd]
        out, st = run_vata(args + files)
        for f in files:
            os.remove(f)
        opname = {"union": "union", "isect": "isect", "load-p": "trim2", "load-s": "trim2", "red": "reduce", "witness": "witness", "cmpl": "compl"}[cmd]
        ev = {"id": c.get("id"), "op": opname, "A": c["A"], "src": "cli:%s:%s" % (repr_, cmd), "cmd": cmd, "maps": "none"}
        if "B" in c:
            ev["B"] = c["B"]
        if repr_ != "expl":
            ev["langonly"] = True
        if st != "ok" or out is None:
            ev["outcome"] = st if (st == "hang" or st.startswith("crash")) else "exception:cli-" + st
            ev["what"] = (out or "")[:200]
            return ev
        try:
            R = parse_timbuk_out(out)
        except ValueError as e:
            ev["outcome"] = "exception:cli-output"
            ev["what"] = str(e)
            return ev
        ev["outcome"] = "ok"
        res = {"A_after": c["A"]}
        if "B" in c:
            res["B_after"] = c["B"]
        if opname == "trim2":
            res["unreach" if cmd == "load-p" else "useless"] = R
        else:
            res["R"] = R
        if opname == "compl":
            res["alphabet"] = c.get("syms") or sorted([list(x) for x in set((r[0], len(r[1])) for r in c["A"]["rules"])])
        ev["res"] = res
        return ev
    with concurrent.futures.ThreadPoolExecutor(max_workers=vlib.NCPU) as ex:
        return list(ex.map(one, enumerate(cases)))


def fa_op_events(cases, rd):
    """cases: {"cmd": union|isect|witness|load-p|load-s, "A", ["B"]} on NFAs through `vata -r expl_fa`"""
    d = os.path.join(rd, "cli")
    os.makedirs(d, exist_ok=True)

    def strip_names(n):
        f = lambda s: s
        return n

    def one(ic):
        i, c = ic
        cmd = c["cmd"]
        fa = os.path.join(d, "na%d.txt" % i)
        sfx = (True if i % 3 == 0 else ("long" if i % 3 == 1 and i % 2 == 0 else False))
        put(fa, nfa_text(c["A"], "A", sfx), i)
        files = [fa]
        if "B" in c and cmd in ("union", "isect"):
            fb = os.path.join(d, "nb%d.txt" % i)
            put(fb, nfa_text(c["B"], "B", sfx), i)
            files.append(fb)
        args = ["-r", "expl_fa"] + (["-p", "load"] if cmd == "load-p" else ["-s", "load"] if cmd == "load-s" else [cmd])
        out, st = run_vata(args + files)
        for f in files:
            os.remove(f)
        kind = {"union": "union", "isect": "isect", "witness": "witness", "load-p": "unreach", "load-s": "useless"}[cmd]
        ev = {"id": c.get("id"), "op": "faop", "kind": kind, "A": c["A"], "src": "cli:expl_fa:" + cmd}
        if "B" in c and cmd in ("union", "isect"):
            ev["B"] = c["B"]
        if st != "ok" or out is None:
            ev["outcome"] = st if (st == "hang" or st.startswith("crash")) else "exception:cli-" + st
            return ev
        try:
            R = to_nfa(parse_timbuk_out(out))
        except (ValueError, IndexError) as e:
            ev["outcome"] = "exception:cli-output"
            return ev
        ev["outcome"] = "ok"
        res = {"R": R, "A_after": c["A"]}
        if "B" in ev:
            res["B_after"] = c["B"]
        ev["res"] = res
        return ev
    with concurrent.futures.ThreadPoolExecutor(max_workers=vlib.NCPU) as ex:
        return list(ex.map(one, enumerate(cases)))


def bddincl_events(cases, rd):
    """C07 through the CLI: -r bdd-bu / bdd-td with the option words of each selection; a non-zero exit (the CLI reports an
    unimplemented selection / an exception) is 'N' (no verdict), a crash or hang is reported as such"""
    d = os.path.join(rd, "cli")
    os.makedirs(d, exist_ok=True)
    sels = {"bu_up": ("bdd-bu", "dir=up,sim=no"), "bu_dr_sim": ("bdd-bu", "dir=down,rec=yes,sim=yes"),
            "td_dr": ("bdd-td", "dir=down,rec=yes,sim=no"), "td_dro": ("bdd-td", "dir=down,rec=yes,optC=yes,sim=no"),
            "bu_dn": ("bdd-bu", "dir=down,rec=no,sim=no"), "td_up": ("bdd-td", "dir=up,sim=no")}

    def one(ic):
        i, c = ic
        fa, fb = os.path.join(d, "ba%d.txt" % i), os.path.join(d, "bb%d.txt" % i)
        put(fa, ta_text(c["A"], "A"), i)
        put(fb, ta_text(c["B"], "B"), i)
        v = {}
        for k, (r, o) in sels.items():
            out, st = run_vata(["-r", r, "-o", o, "incl", fa, fb])
            x = verdict(out, st)
            v[k] = x if x in ("T", "F") or x.startswith("X:hang") or x.startswith("X:crash") else "N"
        os.remove(fa)
        os.remove(fb)
        return {"id": c.get("id"), "op": "bddincl", "A": c["A"], "B": c["B"], "src": "cli:" + str(c.get("src")), "outcome": "ok", "res": {"v": v}}
    with concurrent.futures.ThreadPoolExecutor(max_workers=vlib.NCPU) as ex:
        return list(ex.map(one, enumerate(cases)))
