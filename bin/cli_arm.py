# CLI arm: the same Layer-1 contracts, observed through the command-line tool `vata` (built from /repo's working tree,
# cli/operations.hh prepares operands and simulations there). Cases are written as Timbuk files, `vata` is run with the
# option words of each selection, its output is turned into the driver's event format and TLC judges it with the same
# trace specification.
import concurrent.futures
import os
import subprocess

import vlib

VATA = os.path.join(vlib.OUT, "build", "cli", "vata")

SEL_OPTS = ["dir=up,sim=no", "dir=up,sim=yes", "dir=down,rec=no,sim=no", "dir=down,rec=no,sim=yes",
            "dir=down,rec=yes,sim=no", "dir=down,rec=yes,sim=yes", "dir=down,rec=yes,optC=yes,sim=no", "dir=down,rec=yes,optC=yes,sim=yes"]


def ta_text(a, name="A"):
    syms = []
    for r in a["rules"]:
        s = "%s:%d" % (r[0], len(r[1]))
        if s not in syms:
            syms.append(s)
    st = set(a["fin"])
    for r in a["rules"]:
        st.add(r[2])
        st.update(r[1])
    lines = ["Ops " + " ".join(syms), "", "Automaton " + name, "States " + " ".join("q%d" % q for q in sorted(st)),
             "Final States " + " ".join("q%d" % q for q in a["fin"]), "Transitions"]
    for r in a["rules"]:
        lines.append((r[0] if not r[1] else "%s(%s)" % (r[0], ",".join("q%d" % k for k in r[1]))) + " -> q%d" % r[2])
    return "\n".join(lines) + "\n"


def nfa_text(a, name="A"):
    lines = ["Ops x:0 " + " ".join(sorted(set("%s:1" % e[1] for e in a["delta"]))), "", "Automaton " + name,
             "States " + " ".join("q%d" % q for q in sorted(set(a["start"]) | set(a["fin"]) | set(e[0] for e in a["delta"]) | set(e[2] for e in a["delta"]))),
             "Final States " + " ".join("q%d" % q for q in a["fin"]), "Transitions"]
    for q in a["start"]:
        lines.append("x -> q%d" % q)
    for e in a["delta"]:
        lines.append("%s(q%d) -> q%d" % (e[1], e[0], e[2]))
    return "\n".join(lines) + "\n"


def run_vata(args, timeout=20):
    try:
        r = subprocess.run([VATA] + args, stdout=subprocess.PIPE, stderr=subprocess.PIPE, text=True, timeout=timeout)
    except subprocess.TimeoutExpired:
        return None, "hang"
    if r.returncode < 0:
        return None, "crash:signal %d" % (-r.returncode)
    return r.stdout, ("ok" if r.returncode == 0 else "exit%d" % r.returncode)


def verdict(out, status):
    if status in ("hang",) or status.startswith("crash"):
        return "X:" + status
    if out is None:
        return "X:" + status
    t = out.strip().splitlines()
    if t and t[-1].strip() in ("0", "1"):
        return "T" if t[-1].strip() == "1" else "F"
    return "X:" + status


def incl_events(cases, rd, repr_="expl"):
    """cases: incl cases {A,B}; returns events in the driver's format with the verdicts the CLI printed"""
    d = os.path.join(rd, "cli")
    os.makedirs(d, exist_ok=True)

    def one(ic):
        i, c = ic
        fa, fb = os.path.join(d, "a%d.txt" % i), os.path.join(d, "b%d.txt" % i)
        open(fa, "w").write(ta_text(c["A"], "A"))
        open(fb, "w").write(ta_text(c["B"], "B"))
        v = []
        for o in SEL_OPTS:
            out, st = run_vata(["-r", repr_, "-o", o, "incl", fa, fb])
            v.append(verdict(out, st))
        os.remove(fa)
        os.remove(fb)
        return {"id": c.get("id"), "op": "incl", "A": c["A"], "B": c["B"], "src": "cli:" + str(c.get("src")), "outcome": "ok",
                "res": {"v": v, "A_after": c["A"], "B_after": c["B"]}}
    with concurrent.futures.ThreadPoolExecutor(max_workers=vlib.NCPU) as ex:
        return list(ex.map(one, enumerate(cases)))


def faincl_events(cases, rd):
    d = os.path.join(rd, "cli")
    os.makedirs(d, exist_ok=True)
    opts = {"anti": "alg=antichains", "cd": "alg=congr,order=depth", "cb": "alg=congr,order=breadth"}

    def one(ic):
        i, c = ic
        fa, fb = os.path.join(d, "fa%d.txt" % i), os.path.join(d, "fb%d.txt" % i)
        open(fa, "w").write(nfa_text(c["A"], "A"))
        open(fb, "w").write(nfa_text(c["B"], "B"))
        out, st = run_vata(["-r", "expl_fa", "-o", opts[c["sel"]], "incl", fa, fb], timeout=10)
        os.remove(fa)
        os.remove(fb)
        ev = {"id": c.get("id"), "op": "faincl", "sel": c["sel"], "A": c["A"], "B": c["B"], "src": "cli:" + str(c.get("src"))}
        if st == "hang" or st.startswith("crash"):
            ev["outcome"] = st
        else:
            ev["outcome"] = "ok"
            ev["res"] = {"v": verdict(out, st), "A_after": c["A"], "B_after": c["B"]}
        return ev
    with concurrent.futures.ThreadPoolExecutor(max_workers=vlib.NCPU) as ex:
        return list(ex.map(one, enumerate(cases)))


def sim_events(cases, rd):
    """cases: sim cases {A, n, dirs}; `vata sim` prints 'i: name, ...' and the set of related index pairs"""
    import re
    d = os.path.join(rd, "cli")
    os.makedirs(d, exist_ok=True)

    def one(ic):
        i, c = ic
        fa = os.path.join(d, "s%d.txt" % i)
        open(fa, "w").write(ta_text(c["A"], "A"))
        res = {"A_after": c["A"]}
        outcome = "ok"
        for key in c.get("dirs", ["down"]):
            out, st = run_vata(["-r", "expl", "-o", "dir=" + key, "sim", fa])
            if st != "ok" or out is None:
                outcome = st if (st == "hang" or st.startswith("crash")) else "ok"
                res[key] = "exception:" + st
                continue
            lines = out.strip().splitlines()
            names = {}
            for m in re.finditer(r"(\d+): q(\d+)", lines[0] if lines else ""):
                names[int(m.group(1))] = int(m.group(2))
            n = c["n"]
            mat = [[0] * n for _ in range(n)]
            for m in re.finditer(r"\((\d+), (\d+)\)", lines[-1] if lines else ""):
                a, b = int(m.group(1)), int(m.group(2))
                if a in names and b in names and names[a] < n and names[b] < n:
                    mat[names[a]][names[b]] = 1
            res[key] = mat
        os.remove(fa)
        ev = {"id": c.get("id"), "op": "sim", "A": c["A"], "n": c["n"], "src": "cli:" + str(c.get("src")), "outcome": outcome}
        if outcome == "ok":
            ev["res"] = res
        return ev
    with concurrent.futures.ThreadPoolExecutor(max_workers=vlib.NCPU) as ex:
        return list(ex.map(one, enumerate(cases)))


def judge(res, rd, name, events, module):
    if not events:
        return
    ef = os.path.join(rd, name + ".cli.0.ndjson")
    vlib.write_ndjson(ef, events)
    v = vlib.tlc_validate(module, [ef])
    res.add_validation(v)
    res.report_fails(v["fails"], os.path.join(vlib.OUT, "viol"))
    res.extra["cli_events"] = res.extra.get("cli_events", 0) + len(events)
    res.checker_cmds.append("vata (CLI) on %d cases -> %s" % (len(events), module))
